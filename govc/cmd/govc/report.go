package main

import (
	"encoding/json"
	"fmt"
	"os"
	"path/filepath"
	"sort"
	"strconv"
	"strings"
	"time"

	"govc/vc"
)

type violation struct {
	Name   string
	Replay string
	Witness bool // counterexample reproduced on the real code
	Reason string
}

func finish(rep *report, start time.Time, partial bool) int {
	prop := rep.Prop
	known := map[string]knownFinding{}
	for _, k := range loadKnown() {
		if k.Property == prop && k.Status != "fixed" {
			known[k.Obligation] = k
		}
	}
	led := loadLedger(prop)
	var viols []violation
	discharged, claimed, covers := 0, 0, 0
	knownHit := map[string]bool{}
	backends := map[string]int{}
	var solverSecs float64
	present := map[string]bool{}
	var undecidedNames []string
	excl := loadExcluded(prop)
	rep.Excluded = nil
	for _, r := range rep.Results {
		present[r.O.Name] = true
		solverSecs += r.Res.Secs
		if reason, ok := excl[r.O.Name]; ok {
			rep.Excluded = append(rep.Excluded, r.O.Name+" ["+r.Status+"]: "+reason)
			continue
		}
		switch r.Status {
		case "discharged":
			claimed++
			discharged++
			backends[r.Res.Solver]++
			if r.Assumed != "" {
				rep.AssumedDis = append(rep.AssumedDis, r.O.Name+" (under "+r.Assumed+")")
			}
		case "cover-ok":
			covers++
		default:
			if k, ok := known[r.O.Name]; ok {
				knownHit[r.O.Name] = true
				fmt.Printf("KNOWN-FINDING: property=%s %s — %s\n", prop, r.O.Name, k.What)
				continue
			}
			claimed++
			v := makeViolation(rep, r)
			viols = append(viols, v)
			if r.Status == "undecided" {
				undecidedNames = append(undecidedNames, r.O.Name)
			}
		}
	}
	for _, e := range rep.Errors {
		if i := strings.Index(e, ": "); i > 0 {
			if reason, ok := excl["func:"+strings.ReplaceAll(e[:i], module+"/", "")]; ok {
				rep.Excluded = append(rep.Excluded, e+" — "+reason)
				continue
			}
		}
		claimed++
		path := writeFailure(prop, "error-"+e, "The function under contract is no longer covered by a proof:\n"+e)
		viols = append(viols, violation{Name: e, Replay: path, Reason: e})
	}
	if led != nil && !partial {
		for _, n := range led.Obligations {
			if !present[n] && isContractDerived(n) {
				claimed++
				path := writeFailure(prop, "orphan-"+n, "contract-orphan: ledger obligation "+n+" is no longer generated (function, loop or contract clause disappeared)")
				viols = append(viols, violation{Name: n, Replay: path, Reason: "contract-orphan"})
			}
		}
	}
	for n, k := range known {
		if !knownHit[n] && present[n] {
			fmt.Printf("note: known finding %s (%s) no longer reproduces on this tree\n", n, k.What)
		}
	}
	if len(rep.Results) == 0 {
		path := writeFailure(prop, "vacuous", "no obligations were generated")
		viols = append(viols, violation{Name: "vacuity", Replay: path, Reason: "zero obligations"})
	}
	for _, v := range viols {
		tail := ""
		if !v.Witness {
			tail = " no-failing-input-found"
		}
		fmt.Printf("VIOLATION property=%s replay=%s obligation=%s%s\n", prop, v.Replay, v.Name, tail)
	}
	wall := time.Since(start).Seconds()
	fmt.Printf("%s: %d functions, %d obligations claimed, %d discharged, %d covers ok, %d known findings, %d violations; load %.1fs gen %.1fs solve %.1fs\n",
		prop, len(rep.Funcs), claimed, discharged, covers, len(knownHit), len(viols), rep.WallLoad, rep.WallGen, rep.WallSolve)
	if !partial {
		writeEvidence(rep, claimed, discharged, covers, knownHit, known, viols, backends, solverSecs, wall, undecidedNames)
	}
	if len(viols) > 0 {
		return 1
	}
	return 0
}

// loadExcluded reads /verif/excluded.json: obligations that are undecided on the unchanged tree and
// are therefore NOT part of the claim (they neither count as discharged nor raise alarms).
func loadExcluded(prop string) map[string]string {
	out := map[string]string{}
	b, err := os.ReadFile(filepath.Join(verifRoot, "excluded.json"))
	if err != nil {
		return out
	}
	var m map[string][]struct {
		Obligation string `json:"obligation"`
		Reason     string `json:"reason"`
	}
	if json.Unmarshal(b, &m) != nil {
		return out
	}
	for _, e := range m[prop] {
		out[e.Obligation] = e.Reason
	}
	return out
}

func makeViolation(rep *report, r *oblResult) violation {
	o := r.O
	var b strings.Builder
	fmt.Fprintf(&b, "obligation: %s\nkind: %s\nfunction: %s\nsource: %s\nstatus: %s\nsolvers: %s\n", o.Name, o.Kind, o.Func, posStr(o), r.Status, strings.Join(r.Res.Tried, " "))
	v := violation{Name: o.Name}
	if r.Status == "cover-vacuous" {
		b.WriteString("\nThe precondition / cover of this function is unsatisfiable: every obligation of the function would hold vacuously.\n")
		v.Reason = "vacuous"
	}
	if r.Status == "refuted" {
		terms, kinds := inputTerms(o)
		vals, raw := vc.GetValues(rep.TmpDir, filepath.Base(r.File), r.Query, terms, 30)
		if vals != nil {
			b.WriteString("\ncounterexample (solver model, inputs of the function):\n")
			for i, t := range terms {
				fmt.Fprintf(&b, "  %s = %s\n", kinds[i], vals[t])
			}
			ok, out, test := tryReplay(rep, o, vals)
			if test != "" {
				b.WriteString("\nreplay test (in-package, injected with go test -overlay):\n" + test + "\n")
			}
			if out != "" {
				b.WriteString("\nreplay output:\n" + out + "\n")
			}
			v.Witness = ok
			if !ok && test != "" {
				b.WriteString("\nmodel not reproduced on the real code (abstraction coarser than the code, or the obligation is functional and has no executable oracle)\n")
			}
		} else {
			b.WriteString("\nno model values could be extracted\n" + raw)
		}
	} else if r.Status == "undecided" {
		b.WriteString("\nno solver decided this obligation within the limit; it is not proved on this tree.\nsolver output (last):\n" + truncate(r.Res.Output, 2000) + "\n")
	}
	b.WriteString("\nSMT-LIB query:\n" + truncate(r.Query, 200000) + "\n")
	v.Replay = writeFailure(rep.Prop, o.Name, b.String())
	return v
}

func truncate(s string, n int) string {
	if len(s) > n {
		return s[:n] + "\n... [truncated]"
	}
	return s
}

// inputTerms lists the terms whose model values describe the function inputs.
func inputTerms(o *vc.Oblig) (terms, descr []string) {
	for _, in := range o.Inputs {
		switch {
		case in.Type == "[]byte" || in.Type == "[]uint8":
			terms = append(terms, "(s-len "+in.Term+")")
			descr = append(descr, "len("+in.Name+")")
			for i := 0; i < 96; i++ {
				idx := fmt.Sprintf("(bvadd (s-off %s) #x%016x)", in.Term, i)
				if o.C.Mode == vc.ModeInt {
					idx = fmt.Sprintf("(+ (s-off %s) %d)", in.Term, i)
				}
				arr := "|E!bv8@0|"
				if o.C.Mode == vc.ModeInt {
					arr = "|E!Int@0|"
				}
				terms = append(terms, fmt.Sprintf("(select (select %s (s-ref %s)) %s)", strings.Trim(arr, "|"), in.Term, idx))
				descr = append(descr, fmt.Sprintf("%s[%d]", in.Name, i))
			}
		case in.Type == "string":
			terms = append(terms, "(str-len "+in.Term+")")
			descr = append(descr, "len("+in.Name+")")
		default:
			terms = append(terms, in.Term)
			descr = append(descr, in.Name)
		}
	}
	return
}

// ---------------------------------------------------------------------------------------------

func parseBV(v string) (uint64, bool) {
	v = strings.TrimSpace(v)
	if strings.HasPrefix(v, "#x") {
		n, err := strconv.ParseUint(v[2:], 16, 64)
		return n, err == nil
	}
	if strings.HasPrefix(v, "#b") {
		n, err := strconv.ParseUint(v[2:], 2, 64)
		return n, err == nil
	}
	if strings.HasPrefix(v, "(- ") {
		n, err := strconv.ParseInt(strings.TrimSuffix(v[3:], ")"), 10, 64)
		return uint64(-n), err == nil
	}
	n, err := strconv.ParseInt(v, 10, 64)
	return uint64(n), err == nil
}

// tryReplay builds an in-package test calling the real function with the model's inputs.
// It is generated only for functions whose parameters are scalars and byte slices.
func tryReplay(rep *report, o *vc.Oblig, vals map[string]string) (bool, string, string) {
	fn := rep.Prog.FuncByKey(o.Func)
	if fn == nil || fn.Signature.Recv() != nil || fn.Pkg == nil {
		return false, "", ""
	}
	var args []string
	for _, in := range o.Inputs {
		switch in.Type {
		case "[]byte", "[]uint8":
			n, ok := parseBV(vals["(s-len "+in.Term+")"])
			if !ok || n > 96 {
				return false, "", ""
			}
			var bs []string
			terms, descr := inputTerms(&vc.Oblig{Inputs: []vc.ModelVar{in}, C: o.C})
			for i, d := range descr {
				if strings.HasPrefix(d, in.Name+"[") {
					k, _ := strconv.Atoi(strings.TrimSuffix(strings.TrimPrefix(d, in.Name+"["), "]"))
					if uint64(k) < n {
						b, _ := parseBV(vals[terms[i]])
						bs = append(bs, fmt.Sprintf("0x%02x", b&0xff))
					}
				}
			}
			args = append(args, "[]byte{"+strings.Join(bs, ", ")+"}")
		case "bool":
			args = append(args, strings.TrimSpace(vals[in.Term]))
		case "int", "int8", "int16", "int32", "int64":
			n, ok := parseBV(vals[in.Term])
			if !ok {
				return false, "", ""
			}
			bits := map[string]uint{"int": 64, "int8": 8, "int16": 16, "int32": 32, "int64": 64}[in.Type]
			sv := int64(n<<(64-bits)) >> (64 - bits)
			args = append(args, fmt.Sprintf("%s(%d)", in.Type, sv))
		case "uint", "uint8", "uint16", "uint32", "uint64", "byte":
			n, ok := parseBV(vals[in.Term])
			if !ok {
				return false, "", ""
			}
			args = append(args, fmt.Sprintf("%s(%d)", in.Type, n))
		default:
			return false, "", ""
		}
	}
	pkgPath := fn.Pkg.Pkg.Path()
	rel := strings.TrimPrefix(strings.TrimPrefix(pkgPath, module), "/")
	dir := filepath.Join(repoRoot, rel)
	call := fmt.Sprintf("%s(%s)", fn.Name(), strings.Join(args, ", "))
	test := fmt.Sprintf(`package %s

import "testing"

// generated by govc from the counterexample of obligation
// %s
func TestVerifReplay(t *testing.T) {
	defer func() {
		if r := recover(); r != nil {
			t.Fatalf("VERIF-REPLAY-PANIC: %%v", r)
		}
	}()
	%s
}
`, fn.Pkg.Pkg.Name(), o.Name, call)
	tmp := rep.TmpDir
	tf := filepath.Join(tmp, sanitizeFile(o.Name)+"_replay_test.go")
	os.WriteFile(tf, []byte(test), 0o644)
	ov := map[string]map[string]string{"Replace": {filepath.Join(dir, "zz_verif_replay_test.go"): tf}}
	ob, _ := json.Marshal(ov)
	of := filepath.Join(tmp, sanitizeFile(o.Name)+"_overlay.json")
	os.WriteFile(of, ob, 0o644)
	out := runCmd(dir, 180, "go", "test", "-tags", "verif", "-overlay", of, "-vet=off", "-count=1", "-timeout", "60s", "-run", "^TestVerifReplay$", ".")
	panicked := strings.Contains(out, "VERIF-REPLAY-PANIC")
	isPanicKind := o.Kind != "post" && o.Kind != "frame" && o.Kind != "lemma" && !strings.HasPrefix(o.Kind, "loop") && !strings.HasPrefix(o.Kind, "pre.")
	return panicked && isPanicKind, truncate(out, 3000), test
}

// ---------------------------------------------------------------------------------------------

func writeEvidence(rep *report, claimed, discharged, covers int, knownHit map[string]bool, known map[string]knownFinding,
	viols []violation, backends map[string]int, solverSecs, wall float64, undecided []string) {
	type fnInfo struct {
		Key     string `json:"function"`
		Pos     string `json:"source"`
		SSAHash string `json:"ssa_sha256_16"`
		Mode    string `json:"arith"`
		Obl     int    `json:"generated_all_properties"`
		Err     string `json:"error,omitempty"`
	}
	var fns []fnInfo
	assume := map[string]bool{}
	for _, f := range rep.Funcs {
		mode := "bv"
		if f.Mode == vc.ModeInt {
			mode = "int"
		}
		pos := ""
		if f.Pos.Filename != "" {
			rel, _ := filepath.Rel(repoRoot, f.Pos.Filename)
			pos = fmt.Sprintf("%s:%d", rel, f.Pos.Line)
		}
		fns = append(fns, fnInfo{Key: strings.ReplaceAll(f.Key, module+"/", ""), Pos: pos, SSAHash: f.SSAHash, Mode: mode, Obl: len(f.Obligs), Err: f.Err})
		for _, n := range f.Notes {
			assume[n] = true
		}
	}
	// assumed contracts used
	for k, c := range rep.Prog.Contracts.ByKey {
		if c.Assumed && c.Used {
			assume["assumed contract (not verified): "+strings.ReplaceAll(k, module+"/", "")] = true
		}
		if c.Pure && c.Used {
			assume["pure accessor modelled as a function of its arguments and the ghost heap version: "+strings.ReplaceAll(k, module+"/", "")] = true
		}
	}
	for _, a := range []string{
		"A-SEQ: sequential reasoning; sync.Mutex/RWMutex operations are no-ops",
		"A-SSA: go/ssa (x/tools v0.29.0, NaiveForm) lowering of the Go source is trusted",
		"A-GEN: the govc VC generator's model of Go semantics (slices, maps, structs, interfaces) is trusted; exercised by the must-fail selftest corpus",
		"A-MEM: slice/string lengths and capacities are below 2^48; memory exhaustion is not modelled",
		"termination is not proved",
	} {
		assume[a] = true
	}
	var assumptions []string
	for a := range assume {
		assumptions = append(assumptions, a)
	}
	sort.Strings(assumptions)
	var samples []map[string]interface{}
	var perObl []map[string]interface{}
	for i, r := range rep.Results {
		perObl = append(perObl, map[string]interface{}{"name": r.O.Name, "status": r.Status, "backend": r.Res.Solver, "secs": round3(r.Res.Secs), "source": posStr(r.O)})
		if len(samples) < 3 && r.Status == "discharged" && (r.O.Kind == "post" || i%7 == 0) {
			samples = append(samples, map[string]interface{}{"obligation": r.O.Name, "smtlib": truncate(r.Query, 6000), "answer": r.Res.Status, "backend": r.Res.Solver})
		}
	}
	if len(samples) == 0 && len(rep.Results) > 0 {
		r := rep.Results[0]
		samples = append(samples, map[string]interface{}{"obligation": r.O.Name, "smtlib": truncate(r.Query, 6000), "answer": r.Res.Status, "backend": r.Res.Solver})
	}
	var kf []string
	for n := range knownHit {
		kf = append(kf, n+": "+known[n].What)
	}
	sort.Strings(kf)
	var vs []string
	for _, v := range viols {
		vs = append(vs, v.Name)
	}
	seed, _ := strconv.Atoi(os.Getenv("VERIF_SEED"))
	cov := map[string]interface{}{
		"obligations":        claimed,
		"discharged":         discharged,
		"checker_cmd":        fmt.Sprintf("bin/govc check %s --tier %s  (VCs generated from %s's working tree with go/packages+go/ssa; discharged by z3 5.1.0 / cvc5 1.0 / z3 4.8.12, first definite answer)", rep.Prop, rep.Tier, repoRoot),
		"trusted_base":       []string{"govc VC generator (/verif/govc)", "golang.org/x/tools v0.29.0 go/ssa + go/types", "z3 5.1.0", "cvc5 1.0", "z3 4.8.12", "Go gc toolchain (replays)"},
		"samples":            samples,
		"functions":          fns,
		"per_obligation":     perObl,
		"backends":           backends,
		"solver_secs_total":  round3(solverSecs),
		"covers_satisfiable": covers,
		"known_findings":     kf,
		"violations":         vs,
		"undecided":          undecided,
		"errors":             rep.Errors,
		"excluded_not_claimed": rep.Excluded,
		"discharged_under_named_assumption": rep.AssumedDis,
		"explanation":        "Each function listed is the real function in /repo, re-loaded and re-translated on this run; obligations = postconditions, loop-invariant establishment/preservation, callee preconditions, frame conditions and implicit-panic conditions of its contract (zz_verif_contracts.go, build tag verif). `obligations` counts this property's claimed obligations (= discharged + violations; covers, known findings and excluded_not_claimed entries are listed separately and not counted); per_obligation lists every one of them with its back end and solver time. functions[].generated_all_properties is the number of VCs the generator emitted for that function before filtering by property tag, so it can exceed this property's share.",
	}
	ev := map[string]interface{}{
		"property_id": rep.Prop,
		"tier":        rep.Tier,
		"seed":        seed,
		"level":       "proof",
		"coverage":    cov,
		"assumptions": assumptions,
		"wall_s":      round3(wall),
		"violations":  len(viols),
	}
	b, _ := json.MarshalIndent(ev, "", " ")
	os.MkdirAll(filepath.Join(verifRoot, "evidence"), 0o755)
	os.WriteFile(filepath.Join(verifRoot, "evidence", rep.Prop+".json"), append(b, '\n'), 0o644)
}

func round3(f float64) float64 { return float64(int64(f*1000+0.5)) / 1000 }
