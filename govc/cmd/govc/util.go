package main

import (
	"bytes"
	"context"
	"os"
	"os/exec"
	"time"
)

func runCmd(dir string, secs int, name string, args ...string) string {
	ctx, cancel := context.WithTimeout(context.Background(), time.Duration(secs)*time.Second)
	defer cancel()
	cmd := exec.CommandContext(ctx, name, args...)
	cmd.Dir = dir
	cmd.Env = append(os.Environ(), "GOFLAGS=-mod=mod", "GOPROXY=off", "GOSUMDB=off", "GOTOOLCHAIN=local")
	var out bytes.Buffer
	cmd.Stdout = &out
	cmd.Stderr = &out
	cmd.Run()
	return out.String()
}
