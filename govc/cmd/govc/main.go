// Command govc: contract-based deductive verification of Go functions in /repo.
package main

import (
	"encoding/json"
	"flag"
	"fmt"
	"os"
	"path/filepath"
	"sort"
	"strconv"
	"strings"
	"sync"
	"time"

	"govc/vc"
)

const module = "github.com/elastos/Elastos.ELA"

var (
	repoRoot  = envOr("VERIF_REPO", "/repo")
	verifRoot = envOr("VERIF_ROOT", "/verif")
)

func envOr(k, d string) string {
	if v := os.Getenv(k); v != "" {
		return v
	}
	return d
}

func main() {
	if len(os.Args) < 2 {
		usage()
	}
	switch os.Args[1] {
	case "check":
		os.Exit(cmdCheck(os.Args[2:]))
	case "ledger":
		os.Exit(cmdLedger(os.Args[2:]))
	case "list":
		os.Exit(cmdList())
	default:
		usage()
	}
}

func usage() {
	fmt.Fprintln(os.Stderr, "usage: govc check <Cxx> [--tier quick|thorough] [--func substr] [--keep] [-v]\n       govc ledger <Cxx>\n       govc list")
	os.Exit(2)
}

// ---------------------------------------------------------------------------------------------

type oblResult struct {
	O      *vc.Oblig
	Res    vc.SolveResult
	File   string
	Query  string
	Status string // discharged | refuted | undecided | cover-ok | cover-vacuous
	Assumed string // non-empty: discharged only under this named assumption class
}

type report struct {
	Prop      string
	Tier      string
	Funcs     []*vc.FuncResult
	Results   []*oblResult
	Errors    []string // unsupported / orphan
	Prog      *vc.Prog
	WallLoad  float64
	WallGen   float64
	WallSolve float64
	TmpDir    string
	Excluded  []string
	AssumedDis []string
}

func contractProps(c *vc.Contract) []string { return c.Props }

func hasProp(ps []string, p string) bool {
	for _, q := range ps {
		if q == p {
			return true
		}
	}
	return false
}

// selectContracts scans contract files (without loading packages) to find the packages needed.
func selectPackages(prop string) ([]string, error) {
	cs, err := vc.LoadContracts(repoRoot, module)
	if err != nil {
		return nil, err
	}
	set := map[string]bool{}
	for _, c := range cs.ByKey {
		if prop == "" || hasProp(c.Props, prop) {
			set[c.PkgPath] = true
		}
	}
	for _, l := range cs.Lemmas {
		if prop == "" || hasProp(l.Props, prop) {
			set[l.PkgPath] = true
		}
	}
	// every package that holds a contract file must be loaded so that keys resolve
	for _, f := range cs.Files {
		rel, _ := filepath.Rel(repoRoot, filepath.Dir(f))
		p := module
		if rel != "." {
			p += "/" + filepath.ToSlash(rel)
		}
		set[p] = true
	}
	var out []string
	for p := range set {
		out = append(out, p)
	}
	sort.Strings(out)
	return out, nil
}

func run(prop, tier, funcFilter string, verbose bool) (*report, error) {
	rep := &report{Prop: prop, Tier: tier}
	t0 := time.Now()
	pkgs, err := selectPackages(prop)
	if err != nil {
		return nil, err
	}
	if len(pkgs) == 0 {
		return nil, fmt.Errorf("no contracts tagged %s", prop)
	}
	prog, err := vc.Load(repoRoot, module, pkgs)
	if err != nil {
		return nil, err
	}
	rep.Prog = prog
	rep.WallLoad = time.Since(t0).Seconds()
	t1 := time.Now()
	var keys []string
	for k, c := range prog.Contracts.ByKey {
		if c.Iface || c.Assumed || (c.Pure && len(c.Ensures) == 0 && len(c.Requires) == 0 && !c.ModSet && len(c.Claims) == 0) {
			continue
		}
		if !hasProp(c.Props, prop) {
			continue
		}
		if funcFilter != "" && !strings.Contains(k, funcFilter) {
			continue
		}
		keys = append(keys, k)
	}
	sort.Strings(keys)
	var mu sync.Mutex
	var wg sync.WaitGroup
	sem := make(chan struct{}, 8)
	frs := make([]*vc.FuncResult, len(keys))
	for i, k := range keys {
		wg.Add(1)
		go func(i int, k string) {
			defer wg.Done()
			sem <- struct{}{}
			defer func() { <-sem }()
			fr := prog.VerifyFunc(prog.Contracts.ByKey[k])
			mu.Lock()
			frs[i] = fr
			mu.Unlock()
		}(i, k)
	}
	wg.Wait()
	rep.Funcs = frs
	lem := prog.VerifyLemmas(prop)
	if lem != nil {
		rep.Funcs = append(rep.Funcs, lem)
	}
	if fb := prog.VerifyForbids(prop); fb != nil && funcFilter == "" {
		rep.Funcs = append(rep.Funcs, fb)
	}
	rep.WallGen = time.Since(t1).Seconds()
	t2 := time.Now()
	tmp, err := os.MkdirTemp("", "govc-"+prop+"-")
	if err != nil {
		return nil, err
	}
	rep.TmpDir = tmp
	secs := 20
	if tier == "thorough" {
		secs = 120
	}
	if v := os.Getenv("VERIF_TIMEOUT"); v != "" {
		if n, err := strconv.Atoi(v); err == nil {
			secs = n
		}
	}
	var all []*oblResult
	for _, fr := range rep.Funcs {
		if fr.Err != "" {
			rep.Errors = append(rep.Errors, fmt.Sprintf("%s: %s", fr.Key, fr.Err))
			continue
		}
		for _, o := range fr.Obligs {
			// a clause tagged [Cxx] belongs to those properties only (a function may serve several)
			if len(o.Props) > 0 && !hasProp(o.Props, prop) {
				continue
			}
			all = append(all, &oblResult{O: o})
		}
	}
	// obligations listed in excluded.json are not part of the claim; the quick tier does not spend solver time on them
	exclSkip := map[string]string{}
	if tier != "thorough" {
		exclSkip = loadExcluded(prop)
	}
	knownOpen := map[string]bool{}
	for _, k := range loadKnown() {
		if k.Property == prop && k.Status != "fixed" {
			knownOpen[k.Obligation] = true
		}
	}
	par := 10
	sem2 := make(chan struct{}, par)
	for i, r := range all {
		wg.Add(1)
		go func(i int, r *oblResult) {
			defer wg.Done()
			sem2 <- struct{}{}
			defer func() { <-sem2 }()
			o := r.O
			secs := secs
			if o.Timeout > secs {
				secs = o.Timeout
			}
			if o.Kind == "lemma" && secs < 60 {
				secs = 60 // lemmas are few and often need a second solver
			}
			if _, skip := exclSkip[o.Name]; skip {
				r.Status = "excluded"
				return
			}
			if o.Static != "" {
				// decided by the generator's call-graph scan
				r.Res = vc.SolveResult{Solver: "govc-callscan", Output: o.Note}
				r.Query = "; " + o.Note + "\n"
				if o.Static == "ok" {
					r.Res.Status = "unsat"
					r.Status = "discharged"
				} else {
					r.Res.Status = "sat"
					r.Status = "refuted"
				}
				return
			}
			var q string
			if o.Cover {
				q = o.C.Query([]string{o.Hyp}, false)
			} else {
				q = o.C.Query([]string{o.Hyp, vc.Not(o.Goal)}, false)
			}
			r.Query = q
			r.File = filepath.Join(tmp, fmt.Sprintf("o%04d.smt2", i))
			os.WriteFile(r.File, []byte("; "+o.Name+"\n"+q), 0o644)
			if _, isKnown := knownOpen[o.Name]; isKnown && tier != "thorough" {
				// an open known finding: one short attempt is enough to see that it still does not prove
				r.Res = vc.Solve(r.File, 8, true)
			} else {
				r.Res = vc.Solve(r.File, secs, true)
			}
			if _, isKnown := knownOpen[o.Name]; (r.Res.Status == "unknown" || r.Res.Status == "timeout" || r.Res.Status == "error") && !o.Cover && !(isKnown && tier != "thorough") && o.Relax == "" {
				// retry policy: once more with a longer limit
				r2 := vc.Solve(r.File, secs*2, false)
				r2.Tried = append(r.Res.Tried, r2.Tried...)
				r.Res = r2
			}
			if !o.Cover && r.Res.Status != "unsat" && o.Relax != "" {
				// second chance under a named assumption class (recorded in the evidence)
				q2 := o.C.Query([]string{o.Hyp, o.Relax, vc.Not(o.Goal)}, false)
				f2 := filepath.Join(tmp, fmt.Sprintf("o%04d.relaxed.smt2", i))
				os.WriteFile(f2, []byte("; "+o.Name+" (relaxed: "+o.RelaxName+")\n"+q2), 0o644)
				r2 := vc.Solve(f2, secs, true)
				if r2.Status == "unsat" {
					r2.Tried = append(r.Res.Tried, r2.Tried...)
					r.Res = r2
					r.Query = q2
					r.Assumed = o.RelaxName
				}
			}
			switch {
			case o.Cover && r.Res.Status == "unsat":
				r.Status = "cover-vacuous"
			case o.Cover:
				r.Status = "cover-ok"
			case r.Res.Status == "unsat":
				r.Status = "discharged"
			case r.Res.Status == "sat":
				r.Status = "refuted"
			default:
				r.Status = "undecided"
			}
		}(i, r)
	}
	wg.Wait()
	rep.Results = all
	rep.WallSolve = time.Since(t2).Seconds()
	if verbose {
		for _, r := range all {
			fmt.Printf("  %-12s %-10s %6.2fs  %s  (%s) %s\n", r.Status, r.Res.Solver, r.Res.Secs, r.O.Name, posStr(r.O), r.Assumed)
		}
		for _, f := range rep.Funcs {
			for _, n := range f.Notes {
				fmt.Printf("  note %s: %s\n", strings.ReplaceAll(f.Key, module+"/", ""), n)
			}
		}
	}
	return rep, nil
}

func posStr(o *vc.Oblig) string {
	if o.Pos.Filename == "" {
		return ""
	}
	rel, _ := filepath.Rel(repoRoot, o.Pos.Filename)
	return fmt.Sprintf("%s:%d", rel, o.Pos.Line)
}

// ---------------------------------------------------------------------------------------------

type knownFinding struct {
	Property   string `json:"property"`
	Obligation string `json:"obligation"`
	What       string `json:"what"`
	Status     string `json:"status,omitempty"` // "" = open finding; "fixed" entries suppress nothing
	Commit     string `json:"commit,omitempty"`
}

func loadKnown() []knownFinding {
	var ks struct {
		Findings []knownFinding `json:"findings"`
	}
	b, err := os.ReadFile(filepath.Join(verifRoot, "known-findings.json"))
	if err != nil {
		return nil
	}
	json.Unmarshal(b, &ks)
	return ks.Findings
}

type ledger struct {
	Property    string   `json:"property"`
	Obligations []string `json:"obligations"`
}

func loadLedger(prop string) *ledger {
	b, err := os.ReadFile(filepath.Join(verifRoot, "ledger", prop+".json"))
	if err != nil {
		return nil
	}
	var l ledger
	if json.Unmarshal(b, &l) != nil {
		return nil
	}
	return &l
}

func isContractDerived(name string) bool {
	i := strings.Index(name, "#")
	if i < 0 {
		return false
	}
	k := name[i+1:]
	for _, p := range []string{"post", "loop", "frame", "cover", "lemma", "pre."} {
		if strings.HasPrefix(k, p) {
			return true
		}
	}
	return strings.Contains(k, ".loop") || strings.Contains(k, ".pre.")
}

func cmdLedger(args []string) int {
	if len(args) < 1 {
		usage()
	}
	prop := args[0]
	rep, err := run(prop, "quick", "", false)
	if err != nil {
		fmt.Fprintln(os.Stderr, "error:", err)
		return 2
	}
	defer os.RemoveAll(rep.TmpDir)
	known := map[string]bool{}
	for _, k := range loadKnown() {
		if k.Property == prop && k.Status != "fixed" {
			known[k.Obligation] = true
		}
	}
	l := ledger{Property: prop}
	bad := 0
	for _, r := range rep.Results {
		switch r.Status {
		case "discharged", "cover-ok":
			l.Obligations = append(l.Obligations, r.O.Name)
		default:
			if !known[r.O.Name] {
				fmt.Printf("NOT IN LEDGER (%s): %s\n", r.Status, r.O.Name)
				bad++
			}
		}
	}
	for _, e := range rep.Errors {
		fmt.Println("ERROR:", e)
		bad++
	}
	sort.Strings(l.Obligations)
	b, _ := json.MarshalIndent(l, "", " ")
	os.MkdirAll(filepath.Join(verifRoot, "ledger"), 0o755)
	os.WriteFile(filepath.Join(verifRoot, "ledger", prop+".json"), append(b, '\n'), 0o644)
	fmt.Printf("ledger %s: %d obligations written, %d not discharged\n", prop, len(l.Obligations), bad)
	return 0
}

func cmdList() int {
	cs, err := vc.LoadContracts(repoRoot, module)
	if err != nil {
		fmt.Fprintln(os.Stderr, err)
		return 2
	}
	for _, c := range cs.ByKey {
		fmt.Printf("%s:%d %s %v\n", c.File, c.Line, c.Header, c.Props)
	}
	return 0
}

func cmdCheck(args []string) int {
	fs := flag.NewFlagSet("check", flag.ExitOnError)
	tier := fs.String("tier", envOr("VERIF_TIER", "quick"), "quick|thorough")
	ff := fs.String("func", "", "only functions whose key contains this")
	keep := fs.Bool("keep", false, "keep the SMT files")
	verbose := fs.Bool("v", false, "print every obligation")
	noEvidence := fs.Bool("no-evidence", false, "do not write the evidence file")
	if len(args) < 1 {
		usage()
	}
	prop := args[0]
	fs.Parse(args[1:])
	start := time.Now()
	rep, err := run(prop, *tier, *ff, *verbose)
	if err != nil {
		fmt.Fprintln(os.Stderr, "error:", err)
		// a check that cannot run is a broken proof, not a pass
		fmt.Printf("VIOLATION property=%s replay=%s no-failing-input-found\n", prop, writeFailure(prop, "load", err.Error()))
		return 1
	}
	if !*keep {
		defer os.RemoveAll(rep.TmpDir)
	} else {
		fmt.Println("SMT files kept in", rep.TmpDir)
	}
	return finish(rep, start, *ff != "" || *noEvidence)
}

func writeFailure(prop, name, text string) string {
	dir := filepath.Join(verifRoot, "replays", prop)
	os.MkdirAll(dir, 0o755)
	p := filepath.Join(dir, sanitizeFile(name)+".txt")
	os.WriteFile(p, []byte(text+"\n"), 0o644)
	return p
}

func sanitizeFile(s string) string {
	var b strings.Builder
	for _, r := range s {
		switch {
		case r >= 'a' && r <= 'z', r >= 'A' && r <= 'Z', r >= '0' && r <= '9', r == '.', r == '-', r == '_':
			b.WriteRune(r)
		default:
			b.WriteByte('_')
		}
	}
	out := b.String()
	if len(out) > 150 {
		out = out[:150]
	}
	return out
}
