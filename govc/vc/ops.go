package vc

import (
	"fmt"
	"go/token"
	"go/types"
	"math/big"

	"golang.org/x/tools/go/ssa"
)

func (x *exec) binop(fr *frame, s *State, op token.Token, a, b *Val, at, bt, rt types.Type, pos token.Pos) *Val {
	boolT := types.Typ[types.Bool]
	switch op {
	case token.EQL, token.NEQ:
		var e string
		switch {
		case isFloat(at):
			e = "(fp.eq " + x.term(a) + " " + x.term(b) + ")"
		case isIfaceType(at) || isIfaceType(bt):
			ta, tb := x.ifaceTerm(s, a, at), x.ifaceTerm(s, b, bt)
			e = Eq(ta, tb)
			if tb == "(mk-iface 0 0)" {
				e = Eq(App("i-tag", ta), "0")
			} else if ta == "(mk-iface 0 0)" {
				e = Eq(App("i-tag", tb), "0")
			}
		case isSliceType(at): // comparison with nil only
			sl := x.term(a)
			if x.term(a) == x.c.Zero(at) {
				sl = x.term(b)
			}
			e = Eq(App("s-ref", sl), "0")
		default:
			e = Eq(x.term(a), x.term(b))
		}
		if op == token.NEQ {
			e = Not(e)
		}
		return x.mkVal(e, boolT)
	case token.LSS, token.LEQ, token.GTR, token.GEQ:
		ops := op.String()
		if isFloat(at) {
			m := map[string]string{"<": "fp.lt", "<=": "fp.leq", ">": "fp.gt", ">=": "fp.geq"}
			return x.mkVal(App(m[ops], x.term(a), x.term(b)), boolT)
		}
		if isStringType(at) {
			x.c.Fun("str-lt", []string{"Str", "Str"}, "Bool")
			ta, tb := x.term(a), x.term(b)
			switch ops {
			case "<":
				return x.mkVal(App("str-lt", ta, tb), boolT)
			case ">":
				return x.mkVal(App("str-lt", tb, ta), boolT)
			case "<=":
				return x.mkVal(Not(App("str-lt", tb, ta)), boolT)
			default:
				return x.mkVal(Not(App("str-lt", ta, tb)), boolT)
			}
		}
		return x.mkVal(x.c.Cmp(ops, x.term(a), x.term(b), at), boolT)
	}
	if isFloat(rt) {
		m := map[token.Token]string{token.ADD: "fp.add RNE", token.SUB: "fp.sub RNE", token.MUL: "fp.mul RNE", token.QUO: "fp.div RNE"}
		f, ok := m[op]
		if !ok {
			fail("float op %s", op)
		}
		return x.mkVal(x.c.Let("f", x.c.SortOf(rt), App(f, x.term(a), x.term(b))), rt)
	}
	if isStringType(rt) && op == token.ADD {
		x.c.Fun("str-cat", []string{"Str", "Str"}, "Str")
		r := App("str-cat", x.term(a), x.term(b))
		x.assume(s, Eq(App("str-len", r), x.c.IAdd(App("str-len", x.term(a)), App("str-len", x.term(b)))))
		return x.mkVal(r, rt)
	}
	if isBoolType(rt) {
		switch op {
		case token.AND, token.LAND:
			return x.mkVal(And(x.term(a), x.term(b)), rt)
		case token.OR, token.LOR:
			return x.mkVal(Or(x.term(a), x.term(b)), rt)
		}
	}
	if op == token.SHL || op == token.SHR {
		return x.shift(fr, s, op, a, b, at, bt, pos)
	}
	return x.arith(fr, s, op, x.term(a), x.term(b), rt, pos)
}

func isIfaceType(t types.Type) bool  { _, ok := t.Underlying().(*types.Interface); return ok }
func isSliceType(t types.Type) bool  { _, ok := t.Underlying().(*types.Slice); return ok }
func isStringType(t types.Type) bool {
	b, ok := t.Underlying().(*types.Basic)
	return ok && b.Info()&types.IsString != 0
}

func (x *exec) ifaceTerm(s *State, v *Val, t types.Type) string {
	if isIfaceType(t) {
		return x.term(v)
	}
	if b, ok := t.Underlying().(*types.Basic); ok && b.Kind() == types.UntypedNil {
		return "(mk-iface 0 0)"
	}
	return x.term(x.makeIface(s, v, t, types.NewInterfaceType(nil, nil)))
}

// arith performs + - * / % & | ^ &^ on integers of type t.
func (x *exec) arith(fr *frame, s *State, op token.Token, a, b string, t types.Type, pos token.Pos) *Val {
	if !isInt(t) {
		fail("arithmetic %s on %s", op, t)
	}
	bits, signed := x.c.bits(t)
	if op == token.QUO || op == token.REM {
		if x.claims("div") {
			x.oblig(fr, s, "div", x.srcText(pos, "div"), pos, Not(Eq(b, x.c.IntLit(bigInt(0), bits))), nil)
		}
	}
	if x.c.Mode == ModeBV {
		m := map[token.Token]string{token.ADD: "bvadd", token.SUB: "bvsub", token.MUL: "bvmul", token.AND: "bvand", token.OR: "bvor", token.XOR: "bvxor"}
		var r string
		switch op {
		case token.QUO:
			if signed {
				r = App("bvsdiv", a, b)
			} else {
				r = App("bvudiv", a, b)
			}
		case token.REM:
			if signed {
				r = App("bvsrem", a, b)
			} else {
				r = App("bvurem", a, b)
			}
		case token.AND_NOT:
			r = App("bvand", a, App("bvnot", b))
		default:
			f, ok := m[op]
			if !ok {
				fail("integer op %s", op)
			}
			r = App(f, a, b)
		}
		if x.claimsOverflow(t) && (op == token.ADD || op == token.SUB || op == token.MUL) {
			x.oblig(fr, s, "overflow", x.srcText(pos, op.String()), pos, x.noOverflowBV(op, a, b, bits, signed), nil)
		}
		return x.mkVal(x.c.Let("a", x.c.SortOf(t), r), t)
	}
	// Int mode
	var r string
	switch op {
	case token.ADD:
		r = "(+ " + a + " " + b + ")"
	case token.SUB:
		r = "(- " + a + " " + b + ")"
	case token.MUL:
		r = "(* " + a + " " + b + ")"
	case token.QUO:
		x.intHelpers()
		r = App("tdiv", a, b)
	case token.REM:
		x.intHelpers()
		r = App("tmod", a, b)
	case token.AND:
		// x & (2^k-1) == x mod 2^k for non-negative x
		if k, ok := maskBits(b); ok && !signed {
			r = fmt.Sprintf("(mod %s %s)", a, new(big.Int).Lsh(big.NewInt(1), uint(k)).String())
		} else if k, ok := maskBits(a); ok && !signed {
			r = fmt.Sprintf("(mod %s %s)", b, new(big.Int).Lsh(big.NewInt(1), uint(k)).String())
		} else if m, ok := andRun(a, b, signed); ok {
			r = m
		} else {
			r = x.bitopInt("and", a, b, t, s)
		}
	case token.OR:
		// with a constant run of ones m: a|m == a - (a&m) + m
		if m, ok := andRun(a, b, signed); ok {
			o, c := a, b
			if _, isC := new(big.Int).SetString(a, 10); isC {
				o, c = b, a
			}
			r = fmt.Sprintf("(+ (- %s %s) %s)", o, m, c)
		} else {
			r = x.bitopInt("or", a, b, t, s)
			if !signed {
				// a|b == a+b when the operands occupy disjoint bit ranges split at some position k
				var fs []string
				for k := 1; k < bits; k++ {
					p := new(big.Int).Lsh(big.NewInt(1), uint(k)).String()
					fs = append(fs, Imp(And(fmt.Sprintf("(= (mod %s %s) 0)", a, p), fmt.Sprintf("(< %s %s)", b, p)), Eq(r, fmt.Sprintf("(+ %s %s)", a, b))))
					fs = append(fs, Imp(And(fmt.Sprintf("(= (mod %s %s) 0)", b, p), fmt.Sprintf("(< %s %s)", a, p)), Eq(r, fmt.Sprintf("(+ %s %s)", a, b))))
				}
				x.assume(s, x.c.Define(x.c.Fresh("or.disjoint"), "Bool", And(fs...)))
			}
		}
	case token.XOR:
		if m, ok := andRun(a, b, signed); ok {
			o, c := a, b
			if _, isC := new(big.Int).SetString(a, 10); isC {
				o, c = b, a
			}
			r = fmt.Sprintf("(+ (- %s (* 2 %s)) %s)", o, m, c)
		} else {
			r = x.bitopInt("xor", a, b, t, s)
		}
	case token.AND_NOT:
		if m, ok := andRun(a, b, signed); ok {
			if _, isC := new(big.Int).SetString(b, 10); isC {
				r = fmt.Sprintf("(- %s %s)", a, m)
				break
			}
		}
		r = x.bitopInt("andnot", a, b, t, s)
	default:
		fail("integer op %s", op)
	}
	switch op {
	case token.ADD, token.SUB, token.MUL:
		if x.claimsOverflow(t) {
			x.oblig(fr, s, "overflow", x.srcText(pos, op.String()), pos, x.c.Range(r, t), nil)
		} else {
			r = x.wrapInt(r, t)
		}
	case token.QUO:
		if signed { // MinInt / -1
			r = x.wrapInt(r, t)
		}
	}
	return x.mkVal(x.c.Let("a", "Int", r), t)
}

// claimsOverflow: `claims overflow` (all integer arithmetic of the function is exact) or
// `claims overflow:pkg.Type` (arithmetic on that named type only, e.g. overflow:common.Fixed64).
func (x *exec) claimsOverflow(t types.Type) bool {
	if x.claims("overflow") {
		return true
	}
	if x.con == nil || x.suppress {
		return false
	}
	if n, ok := t.(*types.Named); ok && n.Obj() != nil && n.Obj().Pkg() != nil {
		return x.con.Claims["overflow:"+n.Obj().Pkg().Name()+"."+n.Obj().Name()]
	}
	return false
}

func (x *exec) wrapInt(r string, t types.Type) string {
	bits, signed := x.c.bits(t)
	m := new(big.Int).Lsh(big.NewInt(1), uint(bits)).String()
	if !signed {
		return fmt.Sprintf("(mod %s %s)", r, m)
	}
	h := new(big.Int).Lsh(big.NewInt(1), uint(bits-1)).String()
	return fmt.Sprintf("(- (mod (+ %s %s) %s) %s)", r, h, m, h)
}

func maskBits(lit string) (int, bool) {
	v, ok := new(big.Int).SetString(lit, 10)
	if !ok || v.Sign() <= 0 {
		return 0, false
	}
	w := new(big.Int).Add(v, big.NewInt(1))
	if new(big.Int).And(w, v).Sign() != 0 {
		return 0, false
	}
	return w.BitLen() - 1, true
}

// andRun: one operand is a non-negative constant whose set bits form one run (2^k-1)<<j; the other
// operand x is unsigned. Then x & m == ((x div 2^j) mod 2^k) * 2^j exactly.
func andRun(a, b string, signed bool) (string, bool) {
	if signed {
		return "", false
	}
	x, c := a, b
	v, ok := new(big.Int).SetString(b, 10)
	if !ok {
		v, ok = new(big.Int).SetString(a, 10)
		x, c = b, a
	}
	_ = c
	if !ok || v.Sign() <= 0 {
		return "", false
	}
	j := v.TrailingZeroBits()
	w := new(big.Int).Rsh(v, j)
	k, ok := maskBits(w.String())
	if !ok {
		return "", false
	}
	pj := new(big.Int).Lsh(big.NewInt(1), j).String()
	pk := new(big.Int).Lsh(big.NewInt(1), uint(k)).String()
	return fmt.Sprintf("(* (mod (div %s %s) %s) %s)", x, pj, pk, pj), true
}

func (x *exec) bitopInt(op, a, b string, t types.Type, s *State) string {
	// uninterpreted in Int mode, with range of the result type
	fn := "bit" + op + "!" + sortKey(types.TypeString(t, nil))
	x.c.Fun(fn, []string{"Int", "Int"}, "Int")
	r := App(fn, a, b)
	x.assume(s, x.c.Range(r, t))
	x.note("arith int: bitwise %s is uninterpreted", op)
	return r
}

// pow2Table defines pow2!tbl(n) = 2^n for 0 <= n < 64 (1 outside), used for machine shifts in arith int.
func (x *exec) pow2Table() {
	if x.c.has("pow2!tbl") {
		return
	}
	body := "1"
	for k := 63; k >= 1; k-- {
		body = fmt.Sprintf("(ite (= n %d) %s %s)", k, new(big.Int).Lsh(big.NewInt(1), uint(k)).String(), body)
	}
	x.c.DefineFun("pow2!tbl", [][2]string{{"n", "Int"}}, "Int", body, false)
}

// pow2BigTable defines pow2!big(n) = 2^n for 0 <= n < MathBits (1 outside): shifts written in specifications.
func (x *exec) pow2BigTable() {
	if x.c.has("pow2!big") {
		return
	}
	body := "1"
	for k := MathBits - 1; k >= 1; k-- {
		body = fmt.Sprintf("(ite (= n %d) %s %s)", k, new(big.Int).Lsh(big.NewInt(1), uint(k)).String(), body)
	}
	x.c.DefineFun("pow2!big", [][2]string{{"n", "Int"}}, "Int", body, false)
}

// bigvalSort is the sort of the ghost array holding *big.Int values.
func (x *exec) bigvalSort() string {
	if x.c.Mode == ModeBV {
		return fmt.Sprintf("(Array Int (_ BitVec %d))", MathBits)
	}
	return "(Array Int Int)"
}

func (x *exec) intHelpers() {
	if x.c.has("tdiv") {
		return
	}
	x.c.DefineFun("tdiv", [][2]string{{"a", "Int"}, {"b", "Int"}}, "Int",
		"(ite (= b 0) 0 (ite (>= a 0) (ite (> b 0) (div a b) (- (div a (- b)))) (ite (> b 0) (- (div (- a) b)) (div (- a) (- b)))))", false)
	x.c.DefineFun("tmod", [][2]string{{"a", "Int"}, {"b", "Int"}}, "Int", "(- a (* b (tdiv a b)))", false)
}

func (x *exec) noOverflowBV(op token.Token, a, b string, bits int, signed bool) string {
	ext := func(t string) string {
		if signed {
			return fmt.Sprintf("((_ sign_extend %d) %s)", bits, t)
		}
		return fmt.Sprintf("((_ zero_extend %d) %s)", bits, t)
	}
	m := map[token.Token]string{token.ADD: "bvadd", token.SUB: "bvsub", token.MUL: "bvmul"}
	wide := App(m[op], ext(a), ext(b))
	narrow := App(m[op], a, b)
	return Eq(wide, ext(narrow))
}

func (x *exec) shift(fr *frame, s *State, op token.Token, a, b *Val, at, bt types.Type, pos token.Pos) *Val {
	abits, asigned := x.c.bits(at)
	bbits, bsigned := x.c.bits(bt)
	ta, tb := x.term(a), x.term(b)
	if bsigned && x.claims("shift") {
		x.oblig(fr, s, "shift", x.srcText(pos, "shift"), pos, x.c.Cmp(">=", tb, x.c.IntLit(bigInt(0), bbits), bt), nil)
	}
	if x.c.Mode == ModeInt {
		// only constant shift counts are interpreted
		if k, ok := new(big.Int).SetString(tb, 10); ok && k.IsInt64() && k.Int64() < 64 {
			p := new(big.Int).Lsh(big.NewInt(1), uint(k.Int64())).String()
			if op == token.SHL {
				r := fmt.Sprintf("(* %s %s)", ta, p)
				if x.claims("overflow") {
					x.oblig(fr, s, "overflow", x.srcText(pos, "<<"), pos, x.c.Range(r, at), nil)
				} else {
					r = x.wrapInt(r, at)
				}
				return x.mkVal(r, at)
			}
			return x.mkVal(fmt.Sprintf("(div %s %s)", ta, p), at)
		}
		// non-constant count: 2^count through a 64-entry table; counts >= width shift everything out
		x.pow2Table()
		cnt := x.c.Let("shcnt", "Int", tb)
		p := App("pow2!tbl", cnt)
		big := fmt.Sprintf("(>= %s %d)", cnt, abits)
		if op == token.SHL {
			r := fmt.Sprintf("(* %s %s)", ta, p)
			if x.claims("overflow") {
				x.oblig(fr, s, "overflow", x.srcText(pos, "<<"), pos, And(Not(big), x.c.Range(r, at)), nil)
				return x.mkVal(x.c.Let("sh", "Int", r), at)
			}
			return x.mkVal(x.c.Let("sh", "Int", Ite(big, "0", x.wrapInt(r, at))), at)
		}
		// >>: floor division (arithmetic shift for negative operands)
		full := "0"
		if asigned {
			full = Ite(fmt.Sprintf("(< %s 0)", ta), "(- 1)", "0")
		}
		return x.mkVal(x.c.Let("sh", "Int", Ite(big, full, fmt.Sprintf("(div %s %s)", ta, p))), at)
	}
	// BV mode: bring the count to the width of a
	var cnt, big string
	switch {
	case bbits == abits:
		cnt, big = tb, "false"
	case bbits < abits:
		cnt, big = fmt.Sprintf("((_ zero_extend %d) %s)", abits-bbits, tb), "false"
	default:
		cnt = fmt.Sprintf("((_ extract %d 0) %s)", abits-1, tb)
		big = fmt.Sprintf("(bvuge %s %s)", tb, bvLitInt(int64(abits), bbits))
	}
	var r string
	switch {
	case op == token.SHL:
		r = Ite(big, bvLitInt(0, abits), App("bvshl", ta, cnt))
	case asigned:
		r = Ite(big, App("bvashr", ta, bvLitInt(int64(abits-1), abits)), App("bvashr", ta, cnt))
	default:
		r = Ite(big, bvLitInt(0, abits), App("bvlshr", ta, cnt))
	}
	return x.mkVal(x.c.Let("sh", x.c.SortOf(at), r), at)
}

func (x *exec) convert(fr *frame, s *State, v *Val, from, to types.Type, pos token.Pos) *Val {
	switch {
	case isInt(from) && isInt(to):
		r := x.c.Convert(x.term(v), from, to)
		if x.c.Mode == ModeInt && x.claims("conv") && r != x.term(v) {
			x.oblig(fr, s, "conv", x.srcText(pos, "conv"), pos, x.c.Range(x.term(v), to), nil)
		}
		return x.mkVal(r, to)
	case isInt(from) && isFloat(to):
		_, signed := x.c.bits(from)
		if x.c.Mode == ModeInt {
			return x.mkVal(fmt.Sprintf("((_ to_fp 11 53) RNE (to_real %s))", x.term(v)), to)
		}
		if signed {
			return x.mkVal(fmt.Sprintf("((_ to_fp 11 53) RNE %s)", x.term(v)), to)
		}
		return x.mkVal(fmt.Sprintf("((_ to_fp_unsigned 11 53) RNE %s)", x.term(v)), to)
	case isFloat(from) && isInt(to):
		bits, signed := x.c.bits(to)
		if x.c.Mode == ModeInt {
			x.c.Fun("f2i", []string{"(_ FloatingPoint 11 53)"}, "Int")
			// truncation toward zero of the real value; in range assumed by obligation
			r := fmt.Sprintf("(to_int_rtz %s)", x.term(v))
			_ = r
			x.note("arith int: float→int conversion is uninterpreted")
			fv := App("f2i", x.term(v))
			x.assume(s, x.c.Range(fv, to))
			return x.mkVal(fv, to)
		}
		// Go: out-of-range conversion is implementation-defined; amd64 yields 0x8000.. ("integer indefinite")
		if signed {
			return x.mkVal(x.c.Let("f2i", x.c.SortOf(to), fmt.Sprintf("((_ fp.to_sbv %d) RTZ %s)", bits, x.term(v))), to)
		}
		return x.mkVal(x.c.Let("f2i", x.c.SortOf(to), fmt.Sprintf("((_ fp.to_ubv %d) RTZ %s)", bits, x.term(v))), to)
	case isFloat(from) && isFloat(to):
		return x.mkVal(x.term(v), to)
	case isStringType(from) && isSliceType(to):
		// []byte(s): fresh backing store whose contents are a function of the string
		ref := x.newRef(s, "s2b")
		ln := App("str-len", x.term(v))
		if sl, ok := to.Underlying().(*types.Slice); ok && isInt(sl.Elem()) {
			es := x.c.SortOf(sl.Elem())
			x.c.Fun("str-bytes", []string{"Str"}, fmt.Sprintf("(Array %s %s)", x.c.I(), es))
			name, sortN := x.elemArr(sl.Elem())
			x.h.set(s, name, sortN, Sto(x.h.get(s, name, sortN), ref, App("str-bytes", x.term(v))))
		}
		return x.mkVal(x.c.Let("sl", "Slice", fmt.Sprintf("(mk-slice %s %s %s %s)", ref, x.c.ILit(0), ln, ln)), to)
	case isSliceType(from) && isStringType(to):
		r := x.c.FreshConst("b2s", "Str")
		x.assume(s, Eq(App("str-len", r), App("s-len", x.term(v))))
		return x.mkVal(r, to)
	case isInt(from) && isStringType(to):
		r := x.c.FreshConst("i2s", "Str")
		x.assume(s, x.wf(r, to))
		return x.mkVal(r, to)
	case types.Identical(from.Underlying(), to.Underlying()):
		return x.mkVal(x.term(v), to)
	}
	if _, ok := from.Underlying().(*types.Pointer); ok {
		if b, ok := to.Underlying().(*types.Basic); ok && b.Kind() == types.UnsafePointer {
			fail("unsafe.Pointer conversion")
		}
	}
	fail("conversion %s -> %s", from, to)
	return nil
}

// ---- maps ----

func (x *exec) mapParts(s *State, m *types.Map, ref string) (dom, val, card string, names [3]string, sorts [3]string) {
	dn, vn, cn, ks, vs := x.mapArrs(m)
	names = [3]string{dn, vn, cn}
	sorts = [3]string{fmt.Sprintf("(Array Int (Array %s Bool))", ks), fmt.Sprintf("(Array Int (Array %s %s))", ks, vs), fmt.Sprintf("(Array Int %s)", x.c.I())}
	dom = Sel(x.h.get(s, dn, sorts[0]), ref)
	val = Sel(x.h.get(s, vn, sorts[1]), ref)
	card = Sel(x.h.get(s, cn, sorts[2]), ref)
	return
}

func (x *exec) keyTerm(s *State, k *Val, m *types.Map, kt types.Type) string {
	if isIfaceType(m.Key()) && !isIfaceType(kt) {
		return x.term(x.makeIface(s, k, kt, m.Key()))
	}
	return x.term(k)
}

// mapStore: one map assignment executed while a change pair's execute closure ran (for A-FRESHKEY).
type mapStore struct{ name, ref, key, cond string }

func (x *exec) mapUpdate(fr *frame, s *State, mv, k, v *Val, m *types.Map, pos token.Pos) {
	ref := x.term(mv)
	if x.claims("nilmap") {
		x.oblig(fr, s, "nilmap", x.srcText(pos, "mapupdate"), pos, Not(Eq(ref, "0")), nil)
	}
	dom, val, card, names, sorts := x.mapParts(s, m, ref)
	kt := x.term(k)
	had := x.c.Let("had", "Bool", Sel(dom, kt))
	if x.recording {
		x.recStores = append(x.recStores, mapStore{name: names[0], ref: ref, key: kt, cond: s.reach})
	}
	x.h.set(s, names[0], sorts[0], Sto(x.h.get(s, names[0], sorts[0]), ref, Sto(dom, kt, "true")))
	x.h.set(s, names[1], sorts[1], Sto(x.h.get(s, names[1], sorts[1]), ref, Sto(val, kt, x.term(v))))
	x.h.set(s, names[2], sorts[2], Sto(x.h.get(s, names[2], sorts[2]), ref, Ite(had, card, x.c.IAdd(card, x.c.ILit(1)))))
}

func (x *exec) mapDelete(s *State, mv, k *Val, m *types.Map) {
	ref := x.term(mv)
	dom, val, card, names, sorts := x.mapParts(s, m, ref)
	kt := x.term(k)
	had := x.c.Let("had", "Bool", Sel(dom, kt))
	x.h.set(s, names[0], sorts[0], Sto(x.h.get(s, names[0], sorts[0]), ref, Sto(dom, kt, "false")))
	x.h.set(s, names[1], sorts[1], Sto(x.h.get(s, names[1], sorts[1]), ref, Sto(val, kt, x.c.Zero(m.Elem()))))
	x.h.set(s, names[2], sorts[2], Sto(x.h.get(s, names[2], sorts[2]), ref, Ite(had, x.c.ISub(card, x.c.ILit(1)), card)))
}

func (x *exec) mapGet(s *State, ref, key string, m *types.Map) (val, ok string) {
	dom, v, _, _, _ := x.mapParts(s, m, ref)
	ok = x.c.Let("mok", "Bool", And(Not(Eq(ref, "0")), Sel(dom, key)))
	val = Ite(ok, Sel(v, key), x.c.Zero(m.Elem()))
	return
}

func (x *exec) lookup(fr *frame, i *ssa.Lookup, s *State) {
	xv := x.val(fr, i.X, s)
	switch u := i.X.Type().Underlying().(type) {
	case *types.Map:
		k := x.keyTerm(s, x.val(fr, i.Index, s), u, i.Index.Type())
		val, ok := x.mapGet(s, x.term(xv), k, u)
		vv := x.loaded(s, x.c.Let("mv", x.c.SortOf(u.Elem()), val), u.Elem())
		if i.CommaOk {
			fr.vals[i] = &Val{Typ: i.Type(), Tup: []*Val{vv, x.mkVal(ok, types.Typ[types.Bool])}}
		} else {
			fr.vals[i] = vv
		}
	case *types.Basic: // string index
		iv := x.toIndex(x.val(fr, i.Index, s), i.Index.Type())
		x.boundsOblig(fr, s, iv, App("str-len", x.term(xv)), i.Pos(), "bounds")
		x.c.Fun("str-at", []string{"Str", x.c.I()}, x.c.SortOf(i.Type()))
		r := App("str-at", x.term(xv), iv)
		if x.c.Mode == ModeInt {
			x.assume(s, x.c.Range(r, i.Type()))
		}
		fr.vals[i] = x.mkVal(r, i.Type())
	default:
		fail("lookup in %s", i.X.Type())
	}
}

// Range over a map: the iteration order is a ghost sequence ks of distinct keys
// covering the domain at the time of the range statement.
func (x *exec) rangeInit(fr *frame, i *ssa.Range, s *State) {
	m, ok := i.X.Type().Underlying().(*types.Map)
	if !ok {
		fail("range over %s", i.X.Type())
	}
	ref := x.term(x.val(fr, i.X, s))
	dom, _, card, _, _ := x.mapParts(s, m, ref)
	ks := x.c.SortOf(m.Key())
	I := x.c.I()
	seq := x.c.Fresh("ks")
	x.c.Fun(seq, []string{I}, ks)
	idx := x.c.Fresh("ksidx")
	x.c.Fun(idx, []string{ks}, I)
	n := x.c.FreshConst("ksn", I)
	dom0 := x.c.Define(x.c.Fresh("dom0"), fmt.Sprintf("(Array %s Bool)", ks), Ite(Eq(ref, "0"), fmt.Sprintf("((as const (Array %s Bool)) false)", ks), dom))
	z := x.c.ILit(0)
	x.assume(s, And(x.c.ICmp("<=", z, n), Imp(Not(Eq(ref, "0")), Eq(n, card)), Imp(Eq(ref, "0"), Eq(n, z))))
	// sequence axioms (quantified, keyed on the sequence symbol)
	x.c.Axiom([]string{seq}, fmt.Sprintf("(forall ((j %s)) (! (=> (and %s %s) (and (select %s (%s j)) (= (%s (%s j)) j))) :pattern ((%s j))))",
		I, x.c.ICmp("<=", z, "j"), x.c.ICmp("<", "j", n), dom0, seq, idx, seq, seq))
	x.c.Axiom([]string{seq}, fmt.Sprintf("(forall ((k %s)) (! (=> (select %s k) (and %s %s (= (%s (%s k)) k))) :pattern ((%s k))))",
		ks, dom0, x.c.ICmp("<=", z, App(idx, "k")), x.c.ICmp("<", App(idx, "k"), n), seq, idx, idx))
	ri := &rangeVal{seq: seq, idx: idx, n: n, m: m, ref: ref, dom0: dom0}
	ctr := x.c.Fresh("rangectr")
	ri.ctrName = ctr
	s.cellsByName(ctr, x.mkVal(z, types.Typ[types.Int]))
	// ghost set of the keys visited so far
	ri.visName = ctr + ".visited"
	ri.setSort = fmt.Sprintf("(Array %s Bool)", ks)
	s.ghost[ri.visName] = &Val{T: fmt.Sprintf("((as const %s) false)", ri.setSort), Typ: types.Typ[types.Bool], SetSort: ri.setSort}
	fr.ranges[i] = ri
	fr.vals[i] = &Val{Typ: i.Type()}
}

type rangeVal struct {
	seq, idx, n string
	m           *types.Map
	ref         string
	dom0        string
	ctrName     string
	visName     string
	setSort     string
}

func (x *exec) next(fr *frame, i *ssa.Next, s *State) {
	if i.IsString {
		fail("range over string")
	}
	rg, ok := i.Iter.(*ssa.Range)
	if !ok {
		fail("next of non-range")
	}
	ri := fr.ranges[rg]
	if ri == nil {
		fail("range state lost")
	}
	ctr := s.ghost[ri.ctrName]
	if ctr == nil {
		fail("range counter lost")
	}
	c := x.term(ctr)
	okT := x.c.Let("rok", "Bool", x.c.ICmp("<", c, ri.n))
	key := x.c.Let("rk", x.c.SortOf(ri.m.Key()), App(ri.seq, c))
	// value: current value in the map (deleted keys read as zero; Go would skip them — over-approximation noted)
	_, v, _, _, _ := x.mapParts(s, ri.m, ri.ref)
	val := x.loaded(s, x.c.Let("rv", x.c.SortOf(ri.m.Elem()), Sel(v, key)), ri.m.Elem())
	x.assume(s, x.c.ICmp("<=", x.c.ILit(0), c))
	s.ghost[ri.ctrName] = x.mkVal(x.c.Let("rc", x.c.I(), Ite(okT, x.c.IAdd(c, x.c.ILit(1)), c)), types.Typ[types.Int])
	// structural facts of ranging over a map that is not modified meanwhile: the next key is in the
	// map and was not visited before; when the iteration is exhausted every key has been visited
	if vis := s.ghost[ri.visName]; vis != nil && vis.T != "" {
		x.assume(s, And(Imp(okT, And(Sel(ri.dom0, key), Not(Sel(vis.T, key)))), Imp(Not(okT), Eq(vis.T, ri.dom0))))
		nv := x.c.Let("rvis", ri.setSort, Ite(okT, Sto(vis.T, key, "true"), vis.T))
		s.ghost[ri.visName] = &Val{T: nv, Typ: types.Typ[types.Bool], SetSort: ri.setSort}
		x.note("range over a map: key sequence is a bijective enumeration of the map's domain at loop entry (map not modified while ranged)")
	}
	tt := i.Type().(*types.Tuple)
	kv := x.mkVal(key, tt.At(1).Type())
	fr.vals[i] = &Val{Typ: i.Type(), Tup: []*Val{x.mkVal(okT, types.Typ[types.Bool]), kv, val}}
}
