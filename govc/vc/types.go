package vc

import (
	"go/token"
	"fmt"
	"go/constant"
	"go/types"
	"math/big"
	"strings"
)

type structInfo struct {
	sort   string
	ctor   string
	fields []string // selector names
	ftypes []types.Type
	fnames []string
}

type unsupported struct{ msg string }

func (u unsupported) Error() string { return "unsupported: " + u.msg }

func fail(f string, a ...interface{}) { panic(unsupported{fmt.Sprintf(f, a...)}) }

func typeKey(t types.Type) string {
	return sanitize(types.TypeString(t, func(p *types.Package) string { return p.Path() }))
}

func shortTypeKey(t types.Type) string {
	s := types.TypeString(t, func(p *types.Package) string {
		path := p.Path()
		path = strings.TrimPrefix(path, "github.com/elastos/Elastos.ELA/")
		return path
	})
	if len(s) > 120 {
		s = fmt.Sprintf("%s.h%x", s[:60], hashStr(s))
	}
	return sanitize(s)
}

func hashStr(s string) uint32 {
	var h uint32 = 2166136261
	for i := 0; i < len(s); i++ {
		h = (h ^ uint32(s[i])) * 16777619
	}
	return h
}

func intBits(b *types.Basic) (bits int, signed bool, ok bool) {
	switch b.Kind() {
	case types.Int8:
		return 8, true, true
	case types.Int16:
		return 16, true, true
	case types.Int32:
		return 32, true, true
	case types.Int64, types.Int, types.UntypedInt, types.UntypedRune:
		return 64, true, true
	case types.Uint8:
		return 8, false, true
	case types.Uint16:
		return 16, false, true
	case types.Uint32:
		return 32, false, true
	case types.Uint64, types.Uint, types.Uintptr:
		return 64, false, true
	}
	return 0, false, false
}

// MathBits is the width that stands for `integer` in bit-vector proofs: contracts that use it there
// carry explicit no-overflow preconditions, so the values are the mathematical ones.
const MathBits = 2112

// MathInt is the specification-only type `integer`: an unbounded mathematical integer in arith int,
// a signed MathBits-bit vector in arith bv.
var MathInt types.Type = types.NewNamed(types.NewTypeName(token.NoPos, nil, "integer", nil), types.Typ[types.Int], nil)

func isInt(t types.Type) bool {
	b, ok := t.Underlying().(*types.Basic)
	if !ok {
		return false
	}
	_, _, ok = intBits(b)
	return ok
}

func isFloat(t types.Type) bool {
	b, ok := t.Underlying().(*types.Basic)
	return ok && (b.Kind() == types.Float64 || b.Kind() == types.Float32 || b.Kind() == types.UntypedFloat)
}

func isByteArray(t types.Type) (n int64, ok bool) {
	a, ok := t.Underlying().(*types.Array)
	if !ok {
		return 0, false
	}
	b, ok := a.Elem().Underlying().(*types.Basic)
	if !ok || b.Kind() != types.Uint8 || a.Len() == 0 || a.Len() > 256 {
		return 0, false
	}
	return a.Len(), true
}

// SortOf maps a Go type to an SMT sort.
func (c *Ctx) SortOf(t types.Type) string {
	if t == MathInt {
		if c.Mode == ModeBV {
			return fmt.Sprintf("(_ BitVec %d)", MathBits)
		}
		return "Int"
	}
	switch u := t.Underlying().(type) {
	case *types.Basic:
		if bits, _, ok := intBits(u); ok {
			if c.Mode == ModeBV {
				return fmt.Sprintf("(_ BitVec %d)", bits)
			}
			return "Int"
		}
		switch u.Kind() {
		case types.Bool, types.UntypedBool:
			return "Bool"
		case types.String, types.UntypedString:
			return "Str"
		case types.Float64, types.UntypedFloat:
			return "(_ FloatingPoint 11 53)"
		case types.UnsafePointer, types.UntypedNil:
			return "Int"
		}
		fail("basic type %s", u)
	case *types.Pointer, *types.Map, *types.Chan, *types.Signature:
		return "Int"
	case *types.Slice:
		return "Slice"
	case *types.Array:
		if n, ok := isByteArray(t); ok {
			return fmt.Sprintf("(_ BitVec %d)", 8*n)
		}
		return fmt.Sprintf("(Array %s %s)", c.I(), c.SortOf(u.Elem()))
	case *types.Struct:
		return c.structOf(t).sort
	case *types.Interface:
		return "Iface"
	case *types.Tuple:
		if u.Len() == 0 {
			return "Bool"
		}
	}
	fail("type %s", t)
	return ""
}

func (c *Ctx) structOf(t types.Type) *structInfo {
	key := shortTypeKey(t)
	if si, ok := c.structs[key]; ok {
		return si
	}
	st := t.Underlying().(*types.Struct)
	si := &structInfo{sort: "S!" + key, ctor: "mk!" + key}
	c.structs[key] = si
	var fs []string
	var deps []string
	for i := 0; i < st.NumFields(); i++ {
		f := st.Field(i)
		sel := fmt.Sprintf("%s!%s", key, sanitize(f.Name()))
		if f.Name() == "_" {
			sel = fmt.Sprintf("%s!blank%d", key, i)
		}
		fsort := c.SortOf(f.Type())
		si.fields = append(si.fields, sel)
		si.ftypes = append(si.ftypes, f.Type())
		si.fnames = append(si.fnames, f.Name())
		fs = append(fs, fmt.Sprintf("(%s %s)", sel, fsort))
		deps = append(deps, symbolsIn(fsort)...)
	}
	text := ""
	if len(fs) == 0 {
		text = fmt.Sprintf("(declare-datatypes ((%s 0)) (((%s))))", si.sort, si.ctor)
	} else {
		text = fmt.Sprintf("(declare-datatypes ((%s 0)) (((%s %s))))", si.sort, si.ctor, strings.Join(fs, " "))
	}
	d := c.raw(kSort, si.sort, text, deps)
	c.idx[si.ctor] = d
	for _, s := range si.fields {
		c.idx[s] = d
	}
	return si
}

// Zero returns the zero value of a type.
func (c *Ctx) Zero(t types.Type) string {
	if t == MathInt {
		return c.IntLit(big.NewInt(0), MathBits)
	}
	switch u := t.Underlying().(type) {
	case *types.Basic:
		if bits, _, ok := intBits(u); ok {
			return c.IntLit(big.NewInt(0), bits)
		}
		switch u.Kind() {
		case types.Bool, types.UntypedBool:
			return "false"
		case types.String, types.UntypedString:
			return c.StrLit("")
		case types.Float64, types.UntypedFloat:
			return "(_ +zero 11 53)"
		case types.UnsafePointer, types.UntypedNil:
			return "0"
		}
	case *types.Pointer, *types.Map, *types.Chan, *types.Signature:
		return "0"
	case *types.Slice:
		z := c.IntLit(big.NewInt(0), 64)
		return fmt.Sprintf("(mk-slice 0 %s %s %s)", z, z, z)
	case *types.Array:
		if n, ok := isByteArray(t); ok {
			return bvLit(big.NewInt(0), int(8*n))
		}
		return fmt.Sprintf("((as const %s) %s)", c.SortOf(t), c.Zero(u.Elem()))
	case *types.Struct:
		si := c.structOf(t)
		if len(si.fields) == 0 {
			return si.ctor
		}
		var zs []string
		for _, ft := range si.ftypes {
			zs = append(zs, c.Zero(ft))
		}
		return "(" + si.ctor + " " + strings.Join(zs, " ") + ")"
	case *types.Interface:
		return "(mk-iface 0 0)"
	}
	fail("zero of %s", t)
	return ""
}

func bvLit(v *big.Int, bits int) string {
	m := new(big.Int).Lsh(big.NewInt(1), uint(bits))
	x := new(big.Int).Mod(v, m)
	if bits%4 == 0 {
		s := x.Text(16)
		return "#x" + strings.Repeat("0", bits/4-len(s)) + s
	}
	s := x.Text(2)
	return "#b" + strings.Repeat("0", bits-len(s)) + s
}

// IntLit renders an integer literal of the given width.
func (c *Ctx) IntLit(v *big.Int, bits int) string {
	if c.Mode == ModeBV {
		return bvLit(v, bits)
	}
	if v.Sign() < 0 {
		return "(- " + new(big.Int).Neg(v).String() + ")"
	}
	return v.String()
}

// ILit renders a literal of the index sort.
func (c *Ctx) ILit(n int64) string { return c.IntLit(big.NewInt(n), 64) }

// StrLit interns a string literal.
func (c *Ctx) StrLit(s string) string {
	if n, ok := c.strLits[s]; ok {
		return n
	}
	name := fmt.Sprintf("str!%d", len(c.strLits))
	c.strLits[s] = name
	c.raw(kConst, name, fmt.Sprintf("(declare-const %s Str) ; %q", name, truncate(s, 40)), []string{"Str"})
	c.Axiom([]string{name}, Eq(App("str-len", name), c.ILit(int64(len(s)))))
	return name
}

func truncate(s string, n int) string {
	s = strings.ReplaceAll(s, "\n", " ")
	if len(s) > n {
		return s[:n]
	}
	return s
}

// TypeTag returns the integer tag of a dynamic type (never 0).
func (c *Ctx) TypeTag(t types.Type) string {
	k := typeKey(t)
	if n, ok := c.tags[k]; ok {
		return fmt.Sprint(n)
	}
	n := len(c.tags) + 1
	c.tags[k] = n
	return fmt.Sprint(n)
}

// ConstVal renders a go/constant value of type t.
func (c *Ctx) ConstVal(v constant.Value, t types.Type) string {
	if v == nil {
		return c.Zero(t)
	}
	switch u := t.Underlying().(type) {
	case *types.Basic:
		if bits, _, ok := intBits(u); ok {
			x, ok := constant.Val(constant.ToInt(v)).(*big.Int)
			if !ok {
				i64, _ := constant.Int64Val(constant.ToInt(v))
				x = big.NewInt(i64)
				if u64, ok := constant.Uint64Val(constant.ToInt(v)); ok {
					x = new(big.Int).SetUint64(u64)
				}
			}
			return c.IntLit(x, bits)
		}
		switch u.Kind() {
		case types.Bool, types.UntypedBool:
			if constant.BoolVal(v) {
				return "true"
			}
			return "false"
		case types.String, types.UntypedString:
			return c.StrLit(constant.StringVal(v))
		case types.Float64, types.UntypedFloat:
			f, _ := constant.Float64Val(v)
			return fpLit(f)
		}
	}
	fail("constant %v of type %s", v, t)
	return ""
}

// ---- integer arithmetic in the selected mode ----

func (c *Ctx) bits(t types.Type) (int, bool) {
	if t == MathInt {
		return MathBits, true
	}
	b, ok := t.Underlying().(*types.Basic)
	if !ok {
		fail("not an integer type: %s", t)
	}
	bits, signed, ok := intBits(b)
	if !ok {
		fail("not an integer type: %s", t)
	}
	return bits, signed
}

// Range returns lo <= x <= hi for integer type t in Int mode ("true" in BV mode).
func (c *Ctx) Range(x string, t types.Type) string {
	if c.Mode == ModeBV || t == MathInt {
		return "true"
	}
	lo, hi := c.Bounds(t)
	return fmt.Sprintf("(and (<= %s %s) (<= %s %s))", lo, x, x, hi)
}

func (c *Ctx) Bounds(t types.Type) (string, string) {
	bits, signed := c.bits(t)
	one := big.NewInt(1)
	if signed {
		hi := new(big.Int).Sub(new(big.Int).Lsh(one, uint(bits-1)), one)
		lo := new(big.Int).Neg(new(big.Int).Lsh(one, uint(bits-1)))
		return c.IntLit(lo, bits), c.IntLit(hi, bits)
	}
	hi := new(big.Int).Sub(new(big.Int).Lsh(one, uint(bits)), one)
	return "0", c.IntLit(hi, bits)
}

// Cmp renders a comparison of two integers of type t.
func (c *Ctx) Cmp(op string, a, b string, t types.Type) string {
	if c.Mode == ModeInt {
		return fmt.Sprintf("(%s %s %s)", op, a, b)
	}
	_, signed := c.bits(t)
	m := map[string][2]string{"<": {"bvult", "bvslt"}, "<=": {"bvule", "bvsle"}, ">": {"bvugt", "bvsgt"}, ">=": {"bvuge", "bvsge"}}
	f := m[op][0]
	if signed {
		f = m[op][1]
	}
	return fmt.Sprintf("(%s %s %s)", f, a, b)
}

// ICmp compares two values of the index sort (signed 64-bit / Int).
func (c *Ctx) ICmp(op, a, b string) string { return c.Cmp(op, a, b, types.Typ[types.Int]) }

func (c *Ctx) IAdd(a, b string) string {
	z := c.ILit(0)
	if a == z {
		return b
	}
	if b == z {
		return a
	}
	if c.Mode == ModeInt {
		return "(+ " + a + " " + b + ")"
	}
	return "(bvadd " + a + " " + b + ")"
}
// EIdx is the absolute position of element k of a slice with offset off. It is an uninterpreted
// function with the defining axiom eidx(off,k) = off+k (trigger: the application), so that
// quantified facts about slice elements are instantiated by E-matching on the element index
// instead of being lost when the solver normalises the arithmetic.
func (c *Ctx) EIdx(off, k string) string {
	if off == c.ILit(0) {
		return k
	}
	if !c.has("eidx") {
		I := c.I()
		c.Fun("eidx", []string{I, I}, I)
		sum := "(+ o k)"
		if c.Mode == ModeBV {
			sum = "(bvadd o k)"
		}
		c.Axiom([]string{"eidx"}, fmt.Sprintf("(forall ((o %s) (k %s)) (! (= (eidx o k) %s) :pattern ((eidx o k))))", I, I, sum))
	}
	return "(eidx " + off + " " + k + ")"
}

func (c *Ctx) ISub(a, b string) string {
	if c.Mode == ModeInt {
		return "(- " + a + " " + b + ")"
	}
	return "(bvsub " + a + " " + b + ")"
}
func (c *Ctx) IMul(a, b string) string {
	if c.Mode == ModeInt {
		return "(* " + a + " " + b + ")"
	}
	return "(bvmul " + a + " " + b + ")"
}

// Convert renders the Go conversion of an integer term from type `from` to `to`.
// In Int mode it returns the mathematically identical value and the range
// obligation is emitted by the caller (wrap-around conversions are modelled
// with mod).
func (c *Ctx) Convert(x string, from, to types.Type) string {
	if c.Mode == ModeInt && to == MathInt {
		return x
	}
	fb, fs := c.bits(from)
	tb, ts := c.bits(to)
	if c.Mode == ModeBV {
		switch {
		case tb == fb:
			return x
		case tb < fb:
			return fmt.Sprintf("((_ extract %d 0) %s)", tb-1, x)
		case fs:
			return fmt.Sprintf("((_ sign_extend %d) %s)", tb-fb, x)
		default:
			return fmt.Sprintf("((_ zero_extend %d) %s)", tb-fb, x)
		}
	}
	// Int mode: exact wrap semantics
	if (fs == ts && tb >= fb) || (!fs && ts && tb > fb) {
		return x
	}
	m := new(big.Int).Lsh(big.NewInt(1), uint(tb)).String()
	if !ts {
		return fmt.Sprintf("(mod %s %s)", x, m)
	}
	h := new(big.Int).Lsh(big.NewInt(1), uint(tb-1)).String()
	return fmt.Sprintf("(- (mod (+ %s %s) %s) %s)", x, h, m, h)
}

func fpLit(f float64) string {
	bf := new(big.Float).SetFloat64(f)
	if f == 0 {
		return "(_ +zero 11 53)"
	}
	// exact rational → use to_fp from real with RNE on an exact decimal fraction
	r, _ := bf.Rat(nil)
	num, den := r.Num(), r.Denom()
	neg := num.Sign() < 0
	n := new(big.Int).Abs(num)
	s := fmt.Sprintf("((_ to_fp 11 53) RNE (/ %s.0 %s.0))", n.String(), den.String())
	if neg {
		s = "(fp.neg " + s + ")"
	}
	return s
}
