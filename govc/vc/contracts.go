package vc

import (
	"bufio"
	"fmt"
	"os"
	"path/filepath"
	"sort"
	"strconv"
	"strings"
)

// Clause is one requires/ensures/invariant/... clause.
type Clause struct {
	Label string
	Text  string
	E     Expr
	Line  int
	Props []string // optional property tags: `ensures [C39] ...`
	Lo, Hi int     // split clauses: range of the case split
	Local  bool    // `proves` clause: not assumed at call sites of ordinary functions
}

// Contract is the contract of one function (or function literal).
type Contract struct {
	Key      string // ssa.Function.String() of the function
	PkgPath  string // package whose contract file declares it
	Header   string
	Recv     string
	Params   []string
	Results  []string
	Mode     Mode
	Requires []*Clause
	Ensures  []*Clause
	// Comparator: `closure k: comparator [Cxx] name: P` — P over the literal's two index parameters, `result`
	// (less(i, j)) and `swapped` (less(j, i)); proved at the sort call for all distinct in-range i, j
	Comparator []*Clause
	Loops    map[int][]*Clause
	Closures map[int]*Contract
	Modifies []*Clause
	ModSet   bool
	Claims   map[string]bool
	// ClaimProps: for claims merged in from an `auto` line, the properties of that line
	ClaimProps map[string][]string
	Covers   []*Clause
	Assumed  bool // contract of an unverified dependency
	Pure     bool // result is a function of the arguments (and the ghost heap version)
	IsSpec   bool // `pure func f(...) T = e` spec function
	SpecBody Expr
	SpecPTys []string
	SpecRTy  string
	Inline   map[string]bool
	Replay   []string
	Props    []string
	Splits   []*Clause
	Hints    []*Clause // `assert` hints: proved then assumed at loop heads / returns
	File     string
	Line     int
	Used     bool
	HdrRecv  string
	HdrName  string
	Auto     bool
	Uninterp bool // spec-level function symbol without definition
	Callbacks map[string]*Callback
	CallSites map[string][]*Clause // obligations at calls of the named callee inside this function
	AllocBound []*Clause // `allocbound e`: every make() of the function allocates at most e bytes
	Iface    bool // interface-method contract, fanned out to implementers
	Derived  string // key of the interface contract this one was copied from
	Opaque   bool
	Timeout  int      // seconds per obligation (0 = tier default)
	Unroll   int      // recursive spec function: number of pre-unfoldings of the definition
	Uses     []string // lemmas (proved separately) assumed at the entry of this function's proof
	Ghost    bool    // ghost func: a sequence of contract applications (lemma over contracts)
	Calls    []*GhostCall
}

// Callback is the contract of a function-typed parameter: obligations at each call of it.
type Callback struct {
	Params   []string
	Requires []*Clause
}

// GhostCall is one step of a ghost function: `call [x :=] f(args)`.
type GhostCall struct {
	Vars []string
	Call *ECall
	Text string
	Line int
}

// Lemma is a closed formula proved from spec-function definitions only.
type Lemma struct {
	Name    string
	PkgPath string
	E       Expr
	Text    string
	Props   []string
	File    string
	Line    int
	Induct  string // non-empty: proved by induction on this variable (base + step obligations)
}

// AutoSpec asks for synthesized thin contracts.
type AutoSpec struct {
	PkgPath string
	Props   []string
	Claims  []string
	Skip    []string
	Inline  []string
	Kind    string // inverse | decoders
	File    string
	Line    int
}

// Forbid is a package-level frame obligation: certain callees must not be called at all.
type Forbid struct {
	PkgPath string
	Props   []string
	Pkgs    []string // forbidden callee packages
	Funcs   []string // forbidden callee functions (ssa keys)
	Except  []string // functions of this package that are exempt
	Writes  []string // Type.Field: fields that only exempt functions may write
	Reads   []string // Type.Field: fields that nothing reachable from the From functions may read
	From    []string // root functions (ssa keys relative to the package, e.g. (*BaseTransaction).hash)
	Cover     []string // struct types whose codec must cover every field (`all`: every type with both methods)
	Transient []string // Type.field: fields deliberately not part of the codec
	File    string
	Line    int
}

// ContractSet holds all contracts found under a repository root.
type ContractSet struct {
	Forbids []*Forbid
	Autos  []*AutoSpec
	ByKey  map[string]*Contract
	Specs  map[string]map[string]*Contract // pkgpath → name → spec function
	Lemmas []*Lemma
	Files  []string
}

var clauseKw = map[string]bool{"uninterpreted": true, "uses": true, "timeout": true, "callsite": true, "forbid": true, "allocbound": true, "callback": true, "auto": true, "interface": true, "func": true, "pure": true, "opaque": true, "ghost": true, "call": true, "assume": true, "lemma": true, "arith": true, "requires": true,
	"ensures": true, "proves": true, "comparator": true, "loop": true, "closure": true, "modifies": true, "claims": true, "cover": true, "inline": true,
	"replay": true, "props": true, "split": true, "hint": true, "end": true}

// LoadContracts reads every zz_verif_contracts.go below root.
func LoadContracts(root, module string) (*ContractSet, error) {
	cs := &ContractSet{ByKey: map[string]*Contract{}, Specs: map[string]map[string]*Contract{}}
	var files []string
	filepath.Walk(root, func(p string, info os.FileInfo, err error) error {
		if err == nil && !info.IsDir() && info.Name() == "zz_verif_contracts.go" {
			files = append(files, p)
		}
		if err == nil && info.IsDir() && (info.Name() == ".git" || info.Name() == "vendor") {
			return filepath.SkipDir
		}
		return nil
	})
	sort.Strings(files)
	cs.Files = files
	for _, f := range files {
		rel, _ := filepath.Rel(root, filepath.Dir(f))
		pkg := module
		if rel != "." {
			pkg = module + "/" + filepath.ToSlash(rel)
		}
		if err := cs.loadFile(f, pkg); err != nil {
			return nil, err
		}
	}
	return cs, nil
}

type rawLine struct {
	text string
	line int
}

func (cs *ContractSet) loadFile(path, pkg string) error {
	fh, err := os.Open(path)
	if err != nil {
		return err
	}
	defer fh.Close()
	sc := bufio.NewScanner(fh)
	sc.Buffer(make([]byte, 1<<20), 1<<20)
	var lines []rawLine
	n := 0
	for sc.Scan() {
		n++
		t := strings.TrimSpace(sc.Text())
		if !strings.HasPrefix(t, "//@") {
			continue
		}
		t = strings.TrimSpace(t[3:])
		if t == "" {
			continue
		}
		// strip trailing `// comment` that is outside strings
		if i := strings.Index(t, " // "); i >= 0 && !strings.Contains(t[:i], "\"") {
			t = strings.TrimSpace(t[:i])
		}
		first := strings.Fields(t)[0]
		first = strings.TrimSuffix(first, ":")
		if !clauseKw[first] && len(lines) > 0 {
			lines[len(lines)-1].text += " " + t
			continue
		}
		lines = append(lines, rawLine{t, n})
	}
	var cur *Contract    // current function contract
	var target *Contract // where clauses go (function or closure sub-contract)
	for _, l := range lines {
		fs := strings.Fields(l.text)
		kw := strings.TrimSuffix(fs[0], ":")
		rest := strings.TrimSpace(l.text[len(fs[0]):])
		errf := func(f string, a ...interface{}) error {
			return fmt.Errorf("%s:%d: %s", path, l.line, fmt.Sprintf(f, a...))
		}
		if kw == "assume" && strings.Contains(l.text, " methods ") {
			// `assume pure methods (t T) A B C [claims heapfree]`: parameterless accessors
			i := strings.Index(l.text, " methods ")
			tail := strings.TrimSpace(l.text[i+len(" methods "):])
			j := matchParen(tail, 0)
			if !strings.HasPrefix(tail, "(") || j < 0 {
				return errf("assume pure methods (recv T) names...")
			}
			recv := tail[:j+1]
			heapfree := false
			for _, name := range strings.Fields(tail[j+1:]) {
				if name == "heapfree" {
					heapfree = true
					continue
				}
				c := &Contract{PkgPath: pkg, Loops: map[int][]*Clause{}, Closures: map[int]*Contract{}, Claims: map[string]bool{},
					Inline: map[string]bool{}, File: path, Line: l.line, Header: l.text, Assumed: true, Pure: strings.Contains(l.text[:i], "pure")}
				if heapfree {
					c.Claims["heapfree"] = true
				}
				if err := parseHeader(c, recv+" "+name+"()", pkg); err != nil {
					return errf("%v", err)
				}
				cs.ByKey[fmt.Sprintf("%s#%d#%s", path, l.line, name)] = c
			}
			cur, target = nil, nil
			continue
		}
		switch kw {
		case "func", "pure", "assume", "opaque", "ghost", "interface", "uninterpreted":
			c := &Contract{PkgPath: pkg, Loops: map[int][]*Clause{}, Closures: map[int]*Contract{}, Claims: map[string]bool{},
				Inline: map[string]bool{}, File: path, Line: l.line, Header: l.text}
			hdr := l.text
			for {
				f := strings.Fields(hdr)
				if len(f) == 0 {
					return errf("empty header")
				}
				if f[0] == "pure" {
					c.Pure = true
				} else if f[0] == "opaque" {
					c.Opaque = true
				} else if f[0] == "uninterpreted" {
					c.Uninterp = true
				} else if f[0] == "ghost" {
					c.Ghost = true
				} else if f[0] == "interface" {
					// contract on an interface method: used at invoke sites and checked on every implementer
					c.Iface = true
				} else if f[0] == "assume" {
					c.Assumed = true
				} else if f[0] == "func" {
					hdr = strings.TrimSpace(hdr[strings.Index(hdr, "func")+4:])
					break
				} else {
					return errf("bad header %q", l.text)
				}
				hdr = strings.TrimSpace(hdr[len(f[0]):])
			}
			if err := parseHeader(c, hdr, pkg); err != nil {
				return errf("%v", err)
			}
			if c.IsSpec {
				if cs.Specs[pkg] == nil {
					cs.Specs[pkg] = map[string]*Contract{}
				}
				cs.Specs[pkg][c.Key] = c
				cur, target = nil, nil
				continue
			}
			cs.ByKey[fmt.Sprintf("%s#%d", path, l.line)] = c
			cur, target = c, c
		case "lemma":
			i := strings.Index(rest, ":")
			if i < 0 {
				return errf("lemma needs `name: formula`")
			}
			name := strings.TrimSpace(rest[:i])
			induct := ""
			if nf := strings.Fields(name); len(nf) == 3 && nf[1] == "induction" {
				// `lemma name induction n: forall n int :: n >= 0 ==> P(n)`
				name, induct = nf[0], nf[2]
			}
			props, body := splitProps(strings.TrimSpace(rest[i+1:]))
			e, err := ParseExpr(body)
			if err != nil {
				return errf("%v", err)
			}
			cs.Lemmas = append(cs.Lemmas, &Lemma{Name: name, PkgPath: pkg, E: e, Text: body, Props: props, File: path, Line: l.line, Induct: induct})
			cur, target = nil, nil
		case "forbid":
			// `forbid props Cxx pkg <path>` / `forbid props Cxx func <key> <key> ...`:
			// no function of this package may call into the package / the listed functions
			fb := &Forbid{PkgPath: pkg, File: path, Line: l.line}
			mode := ""
			for _, f := range strings.Fields(rest) {
				switch f {
				case "props", "pkg", "func", "except", "write", "read", "from", "cover", "transient":
					mode = f
				default:
					switch mode {
					case "props":
						fb.Props = append(fb.Props, strings.Trim(f, ","))
					case "pkg":
						fb.Pkgs = append(fb.Pkgs, strings.Trim(f, ","))
					case "func":
						fb.Funcs = append(fb.Funcs, strings.Trim(f, ","))
					case "except":
						fb.Except = append(fb.Except, strings.Trim(f, ","))
					case "read":
						// `forbid props Cxx read Type.Field from F G`: nothing reachable from F, G loads these fields
						fb.Reads = append(fb.Reads, strings.Trim(f, ","))
					case "from":
						fb.From = append(fb.From, strings.Trim(f, ","))
					case "cover":
						// `forbid props Cxx cover T1 T2 … transient T.f …`: every field of the struct types (or of every
						// struct type of the package with Serialize and Deserialize methods when the list is `all`) is read
						// by something reachable from Serialize and written by something reachable from Deserialize
						fb.Cover = append(fb.Cover, strings.Trim(f, ","))
					case "transient":
						fb.Transient = append(fb.Transient, strings.Trim(f, ","))
					case "write":
						// `forbid props Cxx write Type.Field ... except F G`: only the exempt functions may
						// store to (or take the address of) these fields
						fb.Writes = append(fb.Writes, strings.Trim(f, ","))
					}
				}
			}
			cs.Forbids = append(cs.Forbids, fb)
			cur, target = nil, nil
		case "auto":
			// `auto inverse props C21 [claims ...]`: synthesize a thin contract for every function
			// of this package that appends change pairs to a utils.History
			fs := strings.Fields(rest)
			if len(fs) < 1 || (fs[0] != "inverse" && fs[0] != "decoders" && fs[0] != "loopvars") {
				return errf("auto inverse|decoders|loopvars props Cxx")
			}
			a := &AutoSpec{PkgPath: pkg, File: path, Line: l.line, Claims: []string{"inverse"}, Kind: fs[0]}
			if fs[0] == "loopvars" {
				// every counting loop of every deserialize* function: the counter is changed only by its own
				// increment (obligation loopK.counter), so a decoder reads exactly as many entries as announced
				a.Claims = []string{"loopvar"}
			}
			if fs[0] == "decoders" {
				// thin safety contracts for every Deserialize* function of the package
				a.Claims = []string{"nopanic", "alloc"}
			}
			mode := ""
			for _, f := range fs[1:] {
				switch f {
				case "props", "claims", "skip", "inline":
					mode = f
				default:
					switch mode {
					case "props":
						a.Props = append(a.Props, strings.Trim(f, ","))
					case "claims":
						a.Claims = append(a.Claims, strings.Trim(f, ","))
					case "skip":
						a.Skip = append(a.Skip, strings.Trim(f, ","))
					case "inline":
						a.Inline = append(a.Inline, strings.Trim(f, ","))
					}
				}
			}
			cs.Autos = append(cs.Autos, a)
			cur, target = nil, nil
		case "end":
			cur, target = nil, nil
		default:
			if cur == nil {
				return errf("clause %q outside a function contract", kw)
			}
			switch kw {
			case "arith":
				switch rest {
				case "bv":
					cur.Mode = ModeBV
				case "int":
					cur.Mode = ModeInt
				default:
					return errf("arith bv|int")
				}
			case "closure":
				i := strings.Index(rest, ":")
				if i < 0 {
					return errf("closure k: clause")
				}
				k, err := strconv.Atoi(strings.TrimSpace(rest[:i]))
				if err != nil {
					return errf("closure ordinal: %v", err)
				}
				sub := cur.Closures[k]
				if sub == nil {
					sub = &Contract{PkgPath: pkg, Loops: map[int][]*Clause{}, Closures: map[int]*Contract{}, Claims: map[string]bool{},
						Inline: map[string]bool{}, File: path, Line: l.line, Mode: cur.Mode}
					cur.Closures[k] = sub
				}
				inner := strings.TrimSpace(rest[i+1:])
				if inner == "" {
					target = sub
					continue
				}
				if err := addClause(sub, inner, l.line); err != nil {
					return errf("%v", err)
				}
			default:
				if err := addClause(target, l.text, l.line); err != nil {
					return errf("%v", err)
				}
			}
		}
	}
	return nil
}

func splitProps(s string) ([]string, string) {
	s = strings.TrimSpace(s)
	if strings.HasPrefix(s, "[") {
		if j := strings.Index(s, "]"); j > 0 {
			inner := s[1:j]
			ok := true
			var ps []string
			for _, p := range strings.Split(inner, ",") {
				p = strings.TrimSpace(p)
				if len(p) < 3 || p[0] != 'C' {
					ok = false
					break
				}
				if _, err := strconv.Atoi(p[1:]); err != nil {
					ok = false
					break
				}
				ps = append(ps, p)
			}
			if ok {
				return ps, strings.TrimSpace(s[j+1:])
			}
		}
	}
	return nil, s
}

func addClause(c *Contract, text string, line int) error {
	fs := strings.Fields(text)
	kw := strings.TrimSuffix(fs[0], ":")
	rest := strings.TrimSpace(text[len(fs[0]):])
	mk := func(body string) (*Clause, error) {
		props, body := splitProps(body)
		label := ""
		// optional `label:` prefix (identifier followed by ':' but not '::')
		if i := strings.Index(body, ":"); i > 0 && !strings.HasPrefix(body[i:], "::") && isIdent(strings.TrimSpace(body[:i])) {
			label = strings.TrimSpace(body[:i])
			body = strings.TrimSpace(body[i+1:])
		}
		cl := &Clause{Label: label, Text: body, Line: line, Props: props}
		if body == "nopanic" || body == "*" {
			return cl, nil
		}
		e, err := ParseExpr(body)
		if err != nil {
			return nil, err
		}
		cl.E = e
		return cl, nil
	}
	switch kw {
	case "requires":
		cl, err := mk(rest)
		if err != nil {
			return err
		}
		c.Requires = append(c.Requires, cl)
	case "ensures", "proves":
		// `proves` = a postcondition that is proved for the function but not handed to its callers
		// (used only by ghost lemmas over the contract): keeps callers' queries small
		cl, err := mk(rest)
		if err != nil {
			return err
		}
		cl.Local = kw == "proves"
		if cl.Text == "nopanic" {
			c.Claims["nopanic"] = true
			return nil
		}
		c.Ensures = append(c.Ensures, cl)
	case "comparator":
		cl, err := mk(rest)
		if err != nil {
			return err
		}
		c.Comparator = append(c.Comparator, cl)
	case "cover":
		cl, err := mk(rest)
		if err != nil {
			return err
		}
		c.Covers = append(c.Covers, cl)
	case "hint":
		cl, err := mk(rest)
		if err != nil {
			return err
		}
		c.Hints = append(c.Hints, cl)
	case "loop":
		i := strings.Index(rest, ":")
		if i < 0 {
			return fmt.Errorf("loop k: invariant e")
		}
		k, err := strconv.Atoi(strings.TrimSpace(rest[:i]))
		if err != nil {
			return fmt.Errorf("loop ordinal: %v", err)
		}
		inner := strings.TrimSpace(rest[i+1:])
		if !strings.HasPrefix(inner, "invariant") {
			return fmt.Errorf("loop %d: expected `invariant`", k)
		}
		cl, err := mk(strings.TrimSpace(inner[len("invariant"):]))
		if err != nil {
			return err
		}
		c.Loops[k] = append(c.Loops[k], cl)
	case "modifies":
		c.ModSet = true
		if rest == "nothing" {
			return nil
		}
		for _, part := range splitTop(rest, ',') {
			part = strings.TrimSpace(part)
			if part == "*" || part == "$client" {
				// `$client`: everything except the change history's own objects (C20); treated as `*`
				// for the function's own frame check
				c.Modifies = append(c.Modifies, &Clause{Text: part, Line: line})
				continue
			}
			e, err := ParseExpr(strings.TrimSuffix(strings.ReplaceAll(part, "[*]", "[0]"), ".*"))
			if err != nil {
				return err
			}
			c.Modifies = append(c.Modifies, &Clause{Text: part, E: e, Line: line})
		}
	case "claims":
		for _, f := range strings.Fields(strings.ReplaceAll(rest, ",", " ")) {
			c.Claims[f] = true
		}
	case "inline":
		for _, f := range strings.Fields(strings.ReplaceAll(rest, ",", " ")) {
			c.Inline[f] = true
		}
	case "props":
		for _, f := range strings.Fields(strings.ReplaceAll(rest, ",", " ")) {
			c.Props = append(c.Props, f)
		}
	case "timeout":
		// per-obligation solver time limit (seconds) for this function when it exceeds the tier's default
		n, err := strconv.Atoi(rest)
		if err != nil || n < 1 || n > 600 {
			return fmt.Errorf("timeout N (seconds)")
		}
		c.Timeout = n
	case "uses":
		for _, f := range strings.Fields(strings.ReplaceAll(rest, ",", " ")) {
			c.Uses = append(c.Uses, f)
		}
	case "replay":
		c.Replay = append(c.Replay, rest)
	case "split":
		// `split e in lo..hi`: every postcondition is proved case by case (e == lo, ..., e == hi, and e outside)
		i := strings.LastIndex(rest, " in ")
		if i < 0 {
			return fmt.Errorf("split e in lo..hi")
		}
		var lo, hi int
		if _, err := fmt.Sscanf(strings.TrimSpace(rest[i+4:]), "%d..%d", &lo, &hi); err != nil || hi < lo || hi-lo > 4096 {
			return fmt.Errorf("split e in lo..hi: bad range %q", rest[i+4:])
		}
		e, err := ParseExpr(strings.TrimSpace(rest[:i]))
		if err != nil {
			return err
		}
		c.Splits = append(c.Splits, &Clause{Text: rest, E: e, Line: line, Lo: lo, Hi: hi})
	case "allocbound":
		cl, err := mk(rest)
		if err != nil {
			return err
		}
		c.AllocBound = append(c.AllocBound, cl)
		c.Claims["alloc"] = true
	case "callsite":
		// `callsite callee: requires P` — obligation at every call of `callee` inside this function,
		// evaluated over the caller's locals (typestate: "the sink is reached only after the check")
		i := strings.Index(rest, ":")
		if i < 0 {
			return fmt.Errorf("callsite callee: requires P")
		}
		name := strings.TrimSpace(rest[:i])
		tail := strings.TrimSpace(rest[i+1:])
		if !strings.HasPrefix(tail, "requires") {
			return fmt.Errorf("callsite %s: expected `requires`", name)
		}
		cl, err := mk(strings.TrimSpace(tail[len("requires"):]))
		if err != nil {
			return err
		}
		if c.CallSites == nil {
			c.CallSites = map[string][]*Clause{}
		}
		c.CallSites[name] = append(c.CallSites[name], cl)
	case "callback":
		// `callback f(a, b): requires P` — obligation at every call of the function-typed parameter f
		i := strings.Index(rest, "(")
		j := matchParen(rest, i)
		if i < 0 || j < 0 {
			return fmt.Errorf("callback name(params): requires P")
		}
		name := strings.TrimSpace(rest[:i])
		tail := strings.TrimSpace(rest[j+1:])
		tail = strings.TrimSpace(strings.TrimPrefix(tail, ":"))
		if !strings.HasPrefix(tail, "requires") {
			return fmt.Errorf("callback %s: expected `requires`", name)
		}
		cl, err := mk(strings.TrimSpace(tail[len("requires"):]))
		if err != nil {
			return err
		}
		if c.Callbacks == nil {
			c.Callbacks = map[string]*Callback{}
		}
		cb := c.Callbacks[name]
		if cb == nil {
			cb = &Callback{}
			for _, p := range splitTop(rest[i+1:j], ',') {
				if f := strings.Fields(p); len(f) > 0 {
					cb.Params = append(cb.Params, f[0])
				}
			}
			c.Callbacks[name] = cb
		}
		cb.Requires = append(cb.Requires, cl)
	case "call":
		gc := &GhostCall{Line: line, Text: rest}
		body := rest
		if i := strings.Index(rest, ":="); i > 0 {
			for _, v := range strings.Split(rest[:i], ",") {
				gc.Vars = append(gc.Vars, strings.TrimSpace(v))
			}
			body = strings.TrimSpace(rest[i+2:])
		}
		e, err := ParseExpr(body)
		if err != nil {
			return err
		}
		ce, ok := e.(*ECall)
		if !ok {
			return fmt.Errorf("call clause needs a call expression")
		}
		gc.Call = ce
		c.Calls = append(c.Calls, gc)
	default:
		return fmt.Errorf("unknown clause %q", kw)
	}
	return nil
}

func isIdent(s string) bool {
	if s == "" {
		return false
	}
	for i := 0; i < len(s); i++ {
		ch := s[i]
		if !(ch == '_' || ch >= 'a' && ch <= 'z' || ch >= 'A' && ch <= 'Z' || i > 0 && ch >= '0' && ch <= '9') {
			return false
		}
	}
	return true
}

func splitTop(s string, sep byte) []string {
	var out []string
	depth := 0
	last := 0
	for i := 0; i < len(s); i++ {
		switch s[i] {
		case '(', '[', '{':
			depth++
		case ')', ']', '}':
			depth--
		default:
			if s[i] == sep && depth == 0 {
				out = append(out, s[last:i])
				last = i + 1
			}
		}
	}
	out = append(out, s[last:])
	return out
}

// parseHeader parses `[(recv [*]T)] [path.]Name(params) [(results)] [= body]`.
func parseHeader(c *Contract, hdr, pkg string) error {
	s := strings.TrimSpace(hdr)
	recvType := ""
	if strings.HasPrefix(s, "(") {
		j := matchParen(s, 0)
		if j < 0 {
			return fmt.Errorf("unbalanced receiver")
		}
		fs := strings.Fields(s[1:j])
		switch len(fs) {
		case 1:
			recvType = fs[0]
			c.Recv = "recv"
		case 2:
			c.Recv, recvType = fs[0], fs[1]
		default:
			return fmt.Errorf("bad receiver %q", s[1:j])
		}
		s = strings.TrimSpace(s[j+1:])
	}
	i := strings.Index(s, "(")
	if i < 0 {
		return fmt.Errorf("missing parameter list")
	}
	name := strings.TrimSpace(s[:i])
	j := matchParen(s, i)
	if j < 0 {
		return fmt.Errorf("unbalanced parameters")
	}
	params := s[i+1 : j]
	s = strings.TrimSpace(s[j+1:])
	for _, p := range splitTop(params, ',') {
		f := strings.Fields(p)
		if len(f) == 0 {
			continue
		}
		c.Params = append(c.Params, f[0])
		if len(f) > 1 {
			c.SpecPTys = append(c.SpecPTys, strings.Join(f[1:], " "))
		} else {
			c.SpecPTys = append(c.SpecPTys, "")
		}
	}
	// propagate types backwards: `a, b int`
	for k := len(c.SpecPTys) - 2; k >= 0; k-- {
		if c.SpecPTys[k] == "" {
			c.SpecPTys[k] = c.SpecPTys[k+1]
		}
	}
	body := ""
	if k := strings.Index(s, "="); k >= 0 && !strings.HasPrefix(s[k:], "==") {
		body = strings.TrimSpace(s[k+1:])
		s = strings.TrimSpace(s[:k])
	}
	if strings.HasPrefix(s, "(") {
		j := matchParen(s, 0)
		if j < 0 {
			return fmt.Errorf("unbalanced results")
		}
		for _, p := range splitTop(s[1:j], ',') {
			f := strings.Fields(p)
			if len(f) > 0 {
				c.Results = append(c.Results, f[0])
			}
		}
	} else if s != "" {
		c.SpecRTy = s
		if f := strings.Fields(s); len(f) == 3 && f[1] == "unroll" {
			// `pure func f(k T) R unroll N = body`: applications use the definition pre-unfolded N times
			c.SpecRTy = f[0]
			if n, err := strconv.Atoi(f[2]); err == nil && n > 0 && n <= 512 {
				c.Unroll = n
			} else {
				return fmt.Errorf("unroll N: bad count %q", f[2])
			}
		}
	}
	if c.Uninterp {
		// `uninterpreted func f(params) T`: a spec-level function symbol without a definition
		c.IsSpec = true
		c.Key = name
		return nil
	}
	if body != "" {
		e, err := ParseExpr(body)
		if err != nil {
			return err
		}
		c.IsSpec = true
		c.SpecBody = e
		c.Key = name
		return nil
	}
	// the ssa key is completed by ContractSet.Resolve once packages are loaded
	c.HdrRecv = recvType
	c.HdrName = name
	return nil
}

// splitQual splits `pkg.Name` / `"path/pkg".Name` into qualifier and name.
func splitQual(t string) (string, string) {
	if k := strings.LastIndex(t, "."); k >= 0 {
		return strings.Trim(t[:k], "\""), t[k+1:]
	}
	return "", t
}

// Resolve computes the ssa keys; resolvePkg maps a package qualifier used in
// the contract file of package `from` to an import path.
func (cs *ContractSet) Resolve(resolvePkg func(from, qual string) (string, error)) error {
	pending := cs.ByKey
	cs.ByKey = map[string]*Contract{}
	for _, c := range pending {
		if c.Ghost {
			c.Key = c.PkgPath + ".ghost." + c.HdrName
			cs.ByKey[c.Key] = c
			continue
		}
		full := func(t string) (string, error) {
			q, n := splitQual(t)
			if q == "" {
				return c.PkgPath + "." + n, nil
			}
			p, err := resolvePkg(c.PkgPath, q)
			if err != nil {
				return "", fmt.Errorf("%s:%d: %v", c.File, c.Line, err)
			}
			return p + "." + n, nil
		}
		if c.HdrRecv != "" {
			ptr := strings.HasPrefix(c.HdrRecv, "*")
			rt, err := full(strings.TrimPrefix(c.HdrRecv, "*"))
			if err != nil {
				return err
			}
			if ptr {
				c.Key = "(*" + rt + ")." + c.HdrName
			} else {
				c.Key = "(" + rt + ")." + c.HdrName
			}
		} else {
			k, err := full(c.HdrName)
			if err != nil {
				return err
			}
			c.Key = k
		}
		if old, dup := cs.ByKey[c.Key]; dup {
			return fmt.Errorf("%s:%d: duplicate contract for %s (also %s:%d)", c.File, c.Line, c.Key, old.File, old.Line)
		}
		cs.ByKey[c.Key] = c
	}
	return nil
}

func matchParen(s string, i int) int {
	depth := 0
	for k := i; k < len(s); k++ {
		switch s[k] {
		case '(':
			depth++
		case ')':
			depth--
			if depth == 0 {
				return k
			}
		}
	}
	return -1
}
