package vc

import (
	"fmt"
	"go/types"
	"sort"
	"strings"

	"golang.org/x/tools/go/ssa"
	"golang.org/x/tools/go/ssa/ssautil"
)

// VerifyForbids decides the package-level frame obligations `forbid ...` by scanning the
// SSA of every function (and function literal) of the package for calls to the forbidden
// callees. These obligations are decided by the generator itself (no solver): Static is
// "ok" or "violated".
func (p *Prog) VerifyForbids(prop string) *FuncResult {
	var fbs []*Forbid
	for _, f := range p.Contracts.Forbids {
		for _, q := range f.Props {
			if q == prop {
				fbs = append(fbs, f)
			}
		}
	}
	if len(fbs) == 0 {
		return nil
	}
	res := &FuncResult{Key: "forbid", SSAHash: "callscan"}
	all := ssautil.AllFunctions(p.SSA)
	for _, fb := range fbs {
		if len(fb.Reads) > 0 {
			p.verifyReads(fb, all, res)
			continue
		}
		if len(fb.Cover) > 0 {
			p.verifyCovers(fb, all, res)
			continue
		}
		if len(fb.Writes) == 1 && fb.Writes[0] == "outside-pairs" {
			p.verifyDirectWrites(fb, all, res)
			continue
		}
		exempt := map[string]bool{}
		for _, e := range fb.Except {
			exempt[e] = true
		}
		type hit struct {
			fn     *ssa.Function
			callee string
			pos    string
		}
		var hits []hit
		nfun := 0
		for fn := range all {
			root := fn
			for root.Parent() != nil {
				root = root.Parent()
			}
			if root.Pkg == nil || root.Pkg.Pkg.Path() != fb.PkgPath || fn.Blocks == nil {
				continue
			}
			if exempt[root.Name()] || root.Synthetic != "" {
				continue
			}
			nfun++
			for _, b := range fn.Blocks {
				for _, in := range b.Instrs {
					if fa, ok := in.(*ssa.FieldAddr); ok && len(fb.Writes) > 0 {
						// a store through, or any other use than a load of, the address of a protected field
						if pt, ok := fa.X.Type().Underlying().(*types.Pointer); ok {
							if nt, ok := pt.Elem().(*types.Named); ok {
								if st, ok := nt.Underlying().(*types.Struct); ok {
									name := nt.Obj().Name() + "." + st.Field(fa.Field).Name()
									for _, w := range fb.Writes {
										if w != name {
											continue
										}
										written := false
										if refs := fa.Referrers(); refs != nil {
											for _, r := range *refs {
												switch u := r.(type) {
												case *ssa.UnOp:
													// load
												case *ssa.Store:
													if u.Addr == fa {
														written = true
													}
												case *ssa.DebugRef:
												default:
													written = true // address escapes
												}
											}
										}
										if written {
											hits = append(hits, hit{fn, "write " + name, p.Fset.Position(in.Pos()).String()})
										}
									}
								}
							}
						}
						continue
					}
					var cc *ssa.CallCommon
					switch i := in.(type) {
					case *ssa.Call:
						cc = &i.Call
					case *ssa.Defer:
						cc = &i.Call
					case *ssa.Go:
						cc = &i.Call
					}
					if cc == nil {
						continue
					}
					callee := cc.StaticCallee()
					if callee == nil || callee.Name() == "init" {
						continue
					}
					bad := false
					for _, fp := range fb.Pkgs {
						if callee.Pkg != nil && callee.Pkg.Pkg.Path() == fp {
							bad = true
						}
					}
					for _, ff := range fb.Funcs {
						if callee.String() == ff {
							bad = true
						}
					}
					if bad {
						hits = append(hits, hit{fn, callee.String(), p.Fset.Position(in.Pos()).String()})
					}
				}
			}
		}
		what := strings.Join(append(append(append([]string{}, fb.Pkgs...), fb.Funcs...), fb.Writes...), ",")
		if len(what) > 60 {
			what = what[:60]
		}
		base := shortKey(fb.PkgPath) + "#forbid:" + sanitize(what)
		if len(hits) == 0 {
			res.Obligs = append(res.Obligs, &Oblig{Name: base, Base: "forbid", Kind: "forbid", Func: fb.PkgPath, Hyp: "true", Goal: "true", Props: fb.Props,
				Static: "ok", Note: fmt.Sprintf("%d functions of %s scanned, no call to %s", nfun, shortKey(fb.PkgPath), what)})
			continue
		}
		sort.Slice(hits, func(i, j int) bool { return hits[i].pos < hits[j].pos })
		seen := map[string]int{}
		for _, h := range hits {
			n := shortKey(h.fn.String()) + "#forbid:" + sanitize(h.callee)
			seen[n]++
			if seen[n] > 1 {
				n = fmt.Sprintf("%s@%d", n, seen[n])
			}
			o := &Oblig{Name: n, Base: "forbid", Kind: "forbid", Func: h.fn.String(), Hyp: "true", Goal: "false", Props: fb.Props,
				Static: "violated", Note: fmt.Sprintf("%s calls %s at %s", shortKey(h.fn.String()), h.callee, h.pos)}
			o.Pos = p.Fset.Position(h.fn.Pos())
			res.Obligs = append(res.Obligs, o)
		}
	}
	return res
}

// verifyReads decides `forbid read Type.Field from F…`: no function reachable from the roots (static callees,
// function literals, and for interface calls every method of that name whose receiver implements the
// interface) loads one of the listed fields or lets its address escape.
func (p *Prog) verifyReads(fb *Forbid, all map[*ssa.Function]bool, res *FuncResult) {
	byKey := map[string]*ssa.Function{}
	byName := map[string][]*ssa.Function{}
	for fn := range all {
		byKey[fn.String()] = fn
		if fn.Signature.Recv() != nil {
			byName[fn.Name()] = append(byName[fn.Name()], fn)
		}
	}
	var work []*ssa.Function
	for _, r := range fb.From {
		key := fb.PkgPath + "." + r
		if strings.HasPrefix(r, "(") {
			// (*T).m → (*pkg.T).m
			i := strings.Index(r, ")")
			t := r[1:i]
			star := ""
			if strings.HasPrefix(t, "*") {
				star, t = "*", t[1:]
			}
			key = "(" + star + fb.PkgPath + "." + t + ")" + r[i+1:]
		}
		fn := byKey[key]
		if fn == nil {
			res.Obligs = append(res.Obligs, &Oblig{Name: shortKey(fb.PkgPath) + "#forbid:read:orphan:" + sanitize(r), Base: "forbid", Kind: "forbid", Func: fb.PkgPath, Hyp: "true", Goal: "false",
				Props: fb.Props, Static: "violated", Note: "root function " + key + " not found"})
			return
		}
		work = append(work, fn)
	}
	// Interface calls inside the module dispatch to every method of that name whose receiver implements the
	// interface. Interface calls inside library code (fmt, io, …) can only reach values the module handed to
	// the library: they dispatch to methods of the concrete types that reachable module code converts to an
	// interface (a rapid-type-analysis style set, iterated to a fixed point).
	boxed := map[string]bool{}
	roots := append([]*ssa.Function{}, work...)
	var seen map[*ssa.Function]bool
	var via map[*ssa.Function]string
	type hit struct {
		fn   *ssa.Function
		what string
		pos  string
	}
	var hits []hit
	for round := 0; round < 8; round++ {
		nBoxed := len(boxed)
		work = append([]*ssa.Function{}, roots...)
		hits = nil
		seen = map[*ssa.Function]bool{}
		via = map[*ssa.Function]string{}
		for len(work) > 0 {
			fn := work[len(work)-1]
			work = work[:len(work)-1]
			if seen[fn] || fn.Blocks == nil {
				seen[fn] = true
				continue
			}
			seen[fn] = true
			for _, af := range fn.AnonFuncs {
				work = append(work, af)
			}
			inModule := fn.Pkg != nil && strings.HasPrefix(fn.Pkg.Pkg.Path(), strings.TrimSuffix(modulePrefix, "/"))
			if fn.Pkg == nil {
				root := fn
				for root.Parent() != nil {
					root = root.Parent()
				}
				inModule = root.Pkg != nil && strings.HasPrefix(root.Pkg.Pkg.Path(), strings.TrimSuffix(modulePrefix, "/"))
			}
			for _, b := range fn.Blocks {
				for _, in := range b.Instrs {
					if mi, ok := in.(*ssa.MakeInterface); ok && inModule {
						boxed[types.TypeString(mi.X.Type(), nil)] = true
					}
					switch i := in.(type) {
					case *ssa.FieldAddr:
						if pt, ok := i.X.Type().Underlying().(*types.Pointer); ok {
							if nt, ok := pt.Elem().(*types.Named); ok {
								if st, ok := nt.Underlying().(*types.Struct); ok {
									name := nt.Obj().Name() + "." + st.Field(i.Field).Name()
									for _, w := range fb.Reads {
										if w != name {
											continue
										}
										read := false
										if refs := i.Referrers(); refs != nil {
											for _, r := range *refs {
												switch u := r.(type) {
												case *ssa.Store:
													if u.Addr != i {
														read = true
													}
												case *ssa.DebugRef:
												default:
													read = true // load, or the address escapes
												}
											}
										}
										if read {
											hits = append(hits, hit{fn, "read " + name, p.Fset.Position(in.Pos()).String()})
										}
									}
								}
							}
						}
					case *ssa.Field:
						if nt, ok := i.X.Type().(*types.Named); ok {
							if st, ok := nt.Underlying().(*types.Struct); ok {
								name := nt.Obj().Name() + "." + st.Field(i.Field).Name()
								for _, w := range fb.Reads {
									if w == name {
										hits = append(hits, hit{fn, "read " + name, p.Fset.Position(in.Pos()).String()})
									}
								}
							}
						}
					}
					var cc *ssa.CallCommon
					switch i := in.(type) {
					case *ssa.Call:
						cc = &i.Call
					case *ssa.Defer:
						cc = &i.Call
					case *ssa.Go:
						cc = &i.Call
					}
					if cc == nil {
						continue
					}
					if callee := cc.StaticCallee(); callee != nil {
						if _, ok := via[callee]; !ok {
							via[callee] = shortKey(fn.String())
						}
						work = append(work, callee)
						continue
					}
					if cc.IsInvoke() {
						it, _ := cc.Value.Type().Underlying().(*types.Interface)
						for _, m := range byName[cc.Method.Name()] {
							rt := m.Signature.Recv().Type()
							if !inModule && !boxed[types.TypeString(rt, nil)] {
								continue
							}
							if it == nil || types.Implements(rt, it) {
								if _, ok := via[m]; !ok {
									via[m] = shortKey(fn.String()) + " (interface call " + cc.Method.Name() + " at " + p.Fset.Position(in.Pos()).String() + ")"
								}
								work = append(work, m)
							}
						}
					}
				}
			}
		}
		if len(boxed) == nBoxed {
			break
		}
	}
	what := strings.Join(fb.Reads, ",")
	if len(hits) == 0 {
		res.Obligs = append(res.Obligs, &Oblig{Name: shortKey(fb.PkgPath) + "#forbid:read:" + sanitize(what), Base: "forbid", Kind: "forbid", Func: fb.PkgPath, Hyp: "true", Goal: "true", Props: fb.Props,
			Static: "ok", Note: fmt.Sprintf("%d functions reachable from %s scanned (static calls, function literals, interface dispatch by method name and implemented interface), none reads %s", len(seen), strings.Join(fb.From, ", "), what)})
		return
	}
	sort.Slice(hits, func(i, j int) bool { return hits[i].pos < hits[j].pos })
	cnt := map[string]int{}
	for _, h := range hits {
		n := shortKey(h.fn.String()) + "#forbid:" + sanitize(h.what)
		cnt[n]++
		if cnt[n] > 1 {
			n = fmt.Sprintf("%s@%d", n, cnt[n])
		}
		o := &Oblig{Name: n, Base: "forbid", Kind: "forbid", Func: h.fn.String(), Hyp: "true", Goal: "false", Props: fb.Props,
			Static: "violated", Note: fmt.Sprintf("%s (reachable from %s via %s) has a %s at %s", shortKey(h.fn.String()), strings.Join(fb.From, ", "), via[h.fn], h.what, h.pos)}
		o.Pos = p.Fset.Position(h.fn.Pos())
		res.Obligs = append(res.Obligs, o)
	}
}

// fieldUses collects, over every module function reachable from root (static calls, function literals,
// interface calls dispatched by method name and implemented interface; library code is not entered), the
// struct fields that are read and the ones that are written (stored to, or whose address escapes).
func (p *Prog) fieldUses(root *ssa.Function, byName map[string][]*ssa.Function) (reads, writes map[string]bool, nfun int) {
	reads, writes = map[string]bool{}, map[string]bool{}
	seen := map[*ssa.Function]bool{}
	work := []*ssa.Function{root}
	mod := strings.TrimSuffix(modulePrefix, "/")
	inModule := func(fn *ssa.Function) bool {
		r := fn
		for r.Parent() != nil {
			r = r.Parent()
		}
		return r.Pkg != nil && strings.HasPrefix(r.Pkg.Pkg.Path(), mod)
	}
	for len(work) > 0 {
		fn := work[len(work)-1]
		work = work[:len(work)-1]
		if seen[fn] || fn.Blocks == nil || !inModule(fn) {
			seen[fn] = true
			continue
		}
		seen[fn] = true
		nfun++
		work = append(work, fn.AnonFuncs...)
		for _, b := range fn.Blocks {
			for _, in := range b.Instrs {
				switch i := in.(type) {
				case *ssa.FieldAddr:
					pt, ok := i.X.Type().Underlying().(*types.Pointer)
					if !ok {
						break
					}
					nt, ok := pt.Elem().(*types.Named)
					if !ok {
						break
					}
					st, ok := nt.Underlying().(*types.Struct)
					if !ok {
						break
					}
					name := nt.Obj().Name() + "." + st.Field(i.Field).Name()
					if refs := i.Referrers(); refs != nil {
						for _, r := range *refs {
							switch u := r.(type) {
							case *ssa.UnOp:
								reads[name] = true
								// a map held in the field that is updated, or a slice that is appended to and stored
								// back, changes what the field denotes
								if lrefs := u.Referrers(); lrefs != nil {
									for _, lr := range *lrefs {
										if mu, ok := lr.(*ssa.MapUpdate); ok && mu.Map == u {
											writes[name] = true
										}
										// a map / pointer held in the field is handed to a callee, which may fill it
										if _, isCall := lr.(ssa.CallInstruction); isCall {
											switch u.Type().Underlying().(type) {
											case *types.Map, *types.Pointer:
												writes[name] = true
											}
										}
									}
								}
							case *ssa.Store:
								if u.Addr == i {
									writes[name] = true
								} else {
									reads[name] = true
								}
							case *ssa.DebugRef:
							case *ssa.FieldAddr, *ssa.IndexAddr:
								// address of a part of the field: both a read path and a write path
								reads[name] = true
								writes[name] = true
							default:
								// the address escapes (e.g. ReadElements(r, &x.f)): may be written and read
								reads[name] = true
								writes[name] = true
							}
						}
					}
				case *ssa.Field:
					if nt, ok := i.X.Type().(*types.Named); ok {
						if st, ok := nt.Underlying().(*types.Struct); ok {
							reads[nt.Obj().Name()+"."+st.Field(i.Field).Name()] = true
						}
					}
				}
				var cc *ssa.CallCommon
				switch i := in.(type) {
				case *ssa.Call:
					cc = &i.Call
				case *ssa.Defer:
					cc = &i.Call
				case *ssa.Go:
					cc = &i.Call
				}
				if cc == nil {
					continue
				}
				if callee := cc.StaticCallee(); callee != nil {
					work = append(work, callee)
					continue
				}
				if cc.IsInvoke() {
					it, _ := cc.Value.Type().Underlying().(*types.Interface)
					for _, m := range byName[cc.Method.Name()] {
						if it == nil || types.Implements(m.Signature.Recv().Type(), it) {
							work = append(work, m)
						}
					}
				}
			}
		}
	}
	return
}

// verifyCovers decides `forbid cover …`: codec coverage of struct fields.
func (p *Prog) verifyCovers(fb *Forbid, all map[*ssa.Function]bool, res *FuncResult) {
	byKey := map[string]*ssa.Function{}
	byName := map[string][]*ssa.Function{}
	for fn := range all {
		byKey[fn.String()] = fn
		if fn.Signature.Recv() != nil {
			byName[fn.Name()] = append(byName[fn.Name()], fn)
		}
	}
	tp := p.typesPkg(fb.PkgPath)
	if tp == nil {
		return
	}
	transient := map[string]bool{}
	for _, t := range fb.Transient {
		transient[t] = true
	}
	var typeNames []string
	if len(fb.Cover) == 1 && fb.Cover[0] == "all" {
		for _, n := range tp.Scope().Names() {
			tn, ok := tp.Scope().Lookup(n).(*types.TypeName)
			if !ok {
				continue
			}
			if _, ok := tn.Type().Underlying().(*types.Struct); !ok {
				continue
			}
			sf, df := byKey["(*"+fb.PkgPath+"."+n+").Serialize"], byKey["(*"+fb.PkgPath+"."+n+").Deserialize"]
			if sf != nil && df != nil && sf.Synthetic == "" && df.Synthetic == "" {
				// (methods promoted from an embedded struct are wrappers: the embedded type is listed itself)
				typeNames = append(typeNames, n)
			}
		}
	} else {
		typeNames = fb.Cover
	}
	sort.Strings(typeNames)
	for _, n := range typeNames {
		tn, ok := tp.Scope().Lookup(n).(*types.TypeName)
		ser, des := byKey["(*"+fb.PkgPath+"."+n+").Serialize"], byKey["(*"+fb.PkgPath+"."+n+").Deserialize"]
		if !ok || ser == nil || des == nil {
			res.Obligs = append(res.Obligs, &Oblig{Name: shortKey(fb.PkgPath) + "#cover:" + n + ":orphan", Base: "cover", Kind: "forbid", Func: fb.PkgPath, Hyp: "true", Goal: "false",
				Props: fb.Props, Static: "violated", Note: "type " + n + " or its Serialize/Deserialize methods not found"})
			continue
		}
		st := tn.Type().Underlying().(*types.Struct)
		rd, _, n1 := p.fieldUses(ser, byName)
		_, wr, n2 := p.fieldUses(des, byName)
		var missing []string
		covered := 0
		for i := 0; i < st.NumFields(); i++ {
			f := st.Field(i)
			key := n + "." + f.Name()
			if transient[key] {
				continue
			}
			if f.Embedded() {
				// an embedded struct is covered through its own fields (listed for its own type) or through a
				// call of its own codec; here only that it is touched at all on both sides
			}
			okR, okW := rd[key], wr[key]
			if okR && okW {
				covered++
				continue
			}
			side := ""
			if !okR {
				side += " not-read-by-Serialize"
			}
			if !okW {
				side += " not-written-by-Deserialize"
			}
			missing = append(missing, key+side)
		}
		name := shortKey(fb.PkgPath) + "#cover:" + n
		if len(missing) == 0 {
			res.Obligs = append(res.Obligs, &Oblig{Name: name, Base: "cover", Kind: "forbid", Func: fb.PkgPath, Hyp: "true", Goal: "true", Props: fb.Props,
				Static: "ok", Note: fmt.Sprintf("%s: %d fields, each read below Serialize (%d functions scanned) and written below Deserialize (%d functions scanned)", n, covered, n1, n2)})
			continue
		}
		o := &Oblig{Name: name, Base: "cover", Kind: "forbid", Func: fb.PkgPath, Hyp: "true", Goal: "false", Props: fb.Props,
			Static: "violated", Note: fmt.Sprintf("%s: fields outside the codec: %s", n, strings.Join(missing, "; "))}
		o.Pos = p.Fset.Position(ser.Pos())
		res.Obligs = append(res.Obligs, o)
	}
}
