package vc

import (
	"fmt"
	"go/types"
	"sort"
	"strings"

	"golang.org/x/tools/go/ssa"
	"golang.org/x/tools/go/ssa/ssautil"
)

// VerifyForbids decides the package-level frame obligations `forbid ...` by scanning the
// SSA of every function (and function literal) of the package for calls to the forbidden
// callees. These obligations are decided by the generator itself (no solver): Static is
// "ok" or "violated".
func (p *Prog) VerifyForbids(prop string) *FuncResult {
	var fbs []*Forbid
	for _, f := range p.Contracts.Forbids {
		for _, q := range f.Props {
			if q == prop {
				fbs = append(fbs, f)
			}
		}
	}
	if len(fbs) == 0 {
		return nil
	}
	res := &FuncResult{Key: "forbid", SSAHash: "callscan"}
	all := ssautil.AllFunctions(p.SSA)
	for _, fb := range fbs {
		exempt := map[string]bool{}
		for _, e := range fb.Except {
			exempt[e] = true
		}
		type hit struct {
			fn     *ssa.Function
			callee string
			pos    string
		}
		var hits []hit
		nfun := 0
		for fn := range all {
			root := fn
			for root.Parent() != nil {
				root = root.Parent()
			}
			if root.Pkg == nil || root.Pkg.Pkg.Path() != fb.PkgPath || fn.Blocks == nil {
				continue
			}
			if exempt[root.Name()] || root.Synthetic != "" {
				continue
			}
			nfun++
			for _, b := range fn.Blocks {
				for _, in := range b.Instrs {
					if fa, ok := in.(*ssa.FieldAddr); ok && len(fb.Writes) > 0 {
						// a store through, or any other use than a load of, the address of a protected field
						if pt, ok := fa.X.Type().Underlying().(*types.Pointer); ok {
							if nt, ok := pt.Elem().(*types.Named); ok {
								if st, ok := nt.Underlying().(*types.Struct); ok {
									name := nt.Obj().Name() + "." + st.Field(fa.Field).Name()
									for _, w := range fb.Writes {
										if w != name {
											continue
										}
										written := false
										if refs := fa.Referrers(); refs != nil {
											for _, r := range *refs {
												switch u := r.(type) {
												case *ssa.UnOp:
													// load
												case *ssa.Store:
													if u.Addr == fa {
														written = true
													}
												case *ssa.DebugRef:
												default:
													written = true // address escapes
												}
											}
										}
										if written {
											hits = append(hits, hit{fn, "write " + name, p.Fset.Position(in.Pos()).String()})
										}
									}
								}
							}
						}
						continue
					}
					var cc *ssa.CallCommon
					switch i := in.(type) {
					case *ssa.Call:
						cc = &i.Call
					case *ssa.Defer:
						cc = &i.Call
					case *ssa.Go:
						cc = &i.Call
					}
					if cc == nil {
						continue
					}
					callee := cc.StaticCallee()
					if callee == nil || callee.Name() == "init" {
						continue
					}
					bad := false
					for _, fp := range fb.Pkgs {
						if callee.Pkg != nil && callee.Pkg.Pkg.Path() == fp {
							bad = true
						}
					}
					for _, ff := range fb.Funcs {
						if callee.String() == ff {
							bad = true
						}
					}
					if bad {
						hits = append(hits, hit{fn, callee.String(), p.Fset.Position(in.Pos()).String()})
					}
				}
			}
		}
		what := strings.Join(append(append(append([]string{}, fb.Pkgs...), fb.Funcs...), fb.Writes...), ",")
		if len(what) > 60 {
			what = what[:60]
		}
		base := shortKey(fb.PkgPath) + "#forbid:" + sanitize(what)
		if len(hits) == 0 {
			res.Obligs = append(res.Obligs, &Oblig{Name: base, Base: "forbid", Kind: "forbid", Func: fb.PkgPath, Hyp: "true", Goal: "true", Props: fb.Props,
				Static: "ok", Note: fmt.Sprintf("%d functions of %s scanned, no call to %s", nfun, shortKey(fb.PkgPath), what)})
			continue
		}
		sort.Slice(hits, func(i, j int) bool { return hits[i].pos < hits[j].pos })
		seen := map[string]int{}
		for _, h := range hits {
			n := shortKey(h.fn.String()) + "#forbid:" + sanitize(h.callee)
			seen[n]++
			if seen[n] > 1 {
				n = fmt.Sprintf("%s@%d", n, seen[n])
			}
			o := &Oblig{Name: n, Base: "forbid", Kind: "forbid", Func: h.fn.String(), Hyp: "true", Goal: "false", Props: fb.Props,
				Static: "violated", Note: fmt.Sprintf("%s calls %s at %s", shortKey(h.fn.String()), h.callee, h.pos)}
			o.Pos = p.Fset.Position(h.fn.Pos())
			res.Obligs = append(res.Obligs, o)
		}
	}
	return res
}
