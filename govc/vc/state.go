package vc

import (
	"fmt"
	"go/types"
	"sort"
	"strings"

	"golang.org/x/tools/go/ssa"
)

type LocKind int

const (
	LCell      LocKind = iota // non-escaping local variable
	LGlobal                   // package-level variable
	LObj                      // whole heap object designated by a Ref term
	LFieldHeap                // non-struct field of a heap object
	LElem                     // element of a slice
	LSub                      // field inside a by-value struct location
	LIdx                      // element inside a by-value array location
)

// Loc is the statically tracked structure of a pointer value.
type Loc struct {
	K      LocKind
	Alloc  *ssa.Alloc
	Global *ssa.Global
	Ref    string     // LObj, LFieldHeap
	T      types.Type // LObj: pointee; LFieldHeap: struct type; LElem: element type; LIdx: array type
	Field  int
	Slice  string // LElem
	Idx    string // LElem, LIdx (index sort)
	Parent *Loc
}

type closure struct {
	Fn    *ssa.Function
	Bind  []*Val
	Instr *ssa.MakeClosure
}

// Val is a symbolic value.
type Val struct {
	T      string
	Typ    types.Type
	L      *Loc
	Tup    []*Val
	Clo    *closure
	Origin  *Loc // slice made from array storage
	OriginT types.Type
	Seq     *seqView // slice seen as a value sequence (spec functions)
	SetSort string   // ghost set values: SMT sort (Array K Bool)
	Tag     string   // "param:<name>" for function-typed parameters (callback contracts)
	Boxed   *Val     // interface value made from this concrete value (MakeInterface)
}

// State is the symbolic store at a program point.
type State struct {
	reach   string
	cells   map[*ssa.Alloc]*Val
	globals map[*ssa.Global]*Val
	heap    map[string]string
	ghost   map[string]*Val // ghost cells (range counters)
	epoch   string
	aliveRefs []string // refs known to be alive (or nil): parameters and local allocations
}

func (s *State) cellsByName(name string, v *Val) { s.ghost[name] = v }

func (s *State) clone() *State {
	n := &State{reach: s.reach, epoch: s.epoch, cells: make(map[*ssa.Alloc]*Val, len(s.cells)),
		globals: make(map[*ssa.Global]*Val, len(s.globals)), heap: make(map[string]string, len(s.heap)), ghost: make(map[string]*Val, len(s.ghost))}
	for k, v := range s.ghost {
		n.ghost[k] = v
	}
	n.aliveRefs = s.aliveRefs[:len(s.aliveRefs):len(s.aliveRefs)]
	for k, v := range s.cells {
		n.cells[k] = v
	}
	for k, v := range s.globals {
		n.globals[k] = v
	}
	for k, v := range s.heap {
		n.heap[k] = v
	}
	return n
}

// heapEnv knows the sorts of heap arrays.
type heapEnv struct {
	c     *Ctx
	sorts map[string]string
	// epochMerge: an epoch created by joining paths with different epochs; a heap array first touched after
	// the join is, path by path, the array of the incoming epoch (not an unrelated fresh array)
	epochMerge map[string][]epochPart
	// onSet, when set, sees every heap write (loop frame inference)
	onSet func(name, term string)
}

type epochPart struct{ cond, epoch string }

func (h *heapEnv) get(s *State, name, sort string) string {
	if t, ok := s.heap[name]; ok {
		return t
	}
	h.sorts[name] = sort
	sym := h.epochSym(name, sort, s.epoch)
	s.heap[name] = sym
	return sym
}

// epochSym is the symbol of heap array `name` as it was when epoch began.
func (h *heapEnv) epochSym(name, sort, epoch string) string {
	sym := name + "@" + epoch
	if h.c.has(sym) {
		return sym
	}
	parts, ok := h.epochMerge[epoch]
	if !ok || len(parts) == 0 {
		h.c.Const(sym, sort)
		return sym
	}
	r := h.epochSym(name, sort, parts[len(parts)-1].epoch)
	for i := len(parts) - 2; i >= 0; i-- {
		r = Ite(parts[i].cond, h.epochSym(name, sort, parts[i].epoch), r)
	}
	return h.c.Define(sym, sort, r)
}

func (h *heapEnv) set(s *State, name, sort, term string) {
	h.sorts[name] = sort
	if h.onSet != nil {
		h.onSet(name, term)
	}
	s.heap[name] = h.c.Let(name, sort, term)
}

func (h *heapEnv) havocAll(s *State) {
	s.epoch = h.c.Fresh("e")
	s.heap = map[string]string{}
	s.globals = map[*ssa.Global]*Val{}
}

func sortKey(sort string) string {
	s := strings.NewReplacer("(_ BitVec ", "bv", "(_ FloatingPoint 11 53)", "f64", "(Array ", "arr.", ")", "", "(", "", " ", ".").Replace(sort)
	return sanitize(s)
}

// ---- heap array names ----

func (x *exec) fieldArr(st types.Type, i int) (string, string) {
	si := x.c.structOf(st)
	name := "F!" + si.fields[i]
	if m, ok := si.ftypes[i].Underlying().(*types.Map); ok && x.mapField != nil {
		x.mapField[name] = m
	}
	if sl, ok := si.ftypes[i].Underlying().(*types.Slice); ok && x.sliceElem != nil {
		if _, seen := x.sliceElem[name]; !seen {
			x.sliceElem[name] = "E!" + sortKey(x.c.SortOf(sl.Elem()))
		}
	}
	return name, fmt.Sprintf("(Array Int %s)", x.c.SortOf(si.ftypes[i]))
}

func (x *exec) ptrArr(t types.Type) (string, string) {
	s := x.c.SortOf(t)
	name := "P!" + sortKey(s)
	if sl, ok := t.Underlying().(*types.Slice); ok && x.sliceElem != nil {
		// P!Slice is shared by all slice element types: only usable when unambiguous
		e := "E!" + sortKey(x.c.SortOf(sl.Elem()))
		if old, seen := x.sliceElem[name]; seen && old != e {
			x.sliceElem[name] = ""
		} else if !seen {
			x.sliceElem[name] = e
		}
	}
	return name, fmt.Sprintf("(Array Int %s)", s)
}

func (x *exec) elemArr(t types.Type) (string, string) {
	s := x.c.SortOf(t)
	return "E!" + sortKey(s), fmt.Sprintf("(Array Int (Array %s %s))", x.c.I(), s)
}

func (x *exec) mapArrs(m *types.Map) (dom, val, card string, ks, vs string) {
	ks, vs = x.c.SortOf(m.Key()), x.c.SortOf(m.Elem())
	k := sortKey(ks) + "!" + sortKey(vs)
	return "Md!" + k, "Mv!" + k, "Mn!" + k, ks, vs
}

// ---- load / store through locations ----

func (x *exec) subref(ref string, st types.Type, field int) string {
	si := x.c.structOf(st)
	id := x.c.TypeTag(types.NewPointer(st)) // unique small int per struct type
	fn := fmt.Sprintf("sub!%s", si.fields[field])
	inv := fmt.Sprintf("subinv!%s", si.fields[field])
	x.c.Fun(fn, []string{"Int"}, "Int")
	x.c.Fun(inv, []string{"Int"}, "Int")
	x.c.Fun("subkind", []string{"Int"}, "Int")
	t := App(fn, ref)
	kind := fmt.Sprintf("%d", hashStr(si.fields[field])%1000003+1)
	_ = id
	key := "subax!" + t
	if x.c.NoLet > 0 {
		// inside a quantifier the reference may mention bound variables: state the fact once, universally
		key = "subaxq!" + fn
		if !x.subAx[key] {
			x.subAx[key] = true
			p := "(" + fn + " sp!)"
			x.c.Axiom([]string{fn}, "(forall ((sp! Int)) (! "+And(Eq(App(inv, p), "sp!"), Eq(App("subkind", p), kind), Not(Eq(p, "0")))+" :pattern ("+p+")))")
		}
	} else if !x.subAx[key] {
		x.subAx[key] = true
		x.c.Axiom([]string{fn}, And(Eq(App(inv, t), ref), Eq(App("subkind", t), kind), Not(Eq(t, "0"))))
	}
	return t
}

func (x *exec) fieldLoc(p *Loc, st types.Type, i int) *Loc {
	ft := x.c.structOf(st).ftypes[i]
	if p.K == LObj {
		if _, ok := ft.Underlying().(*types.Struct); ok {
			return &Loc{K: LObj, Ref: x.subref(p.Ref, st, i), T: ft}
		}
		return &Loc{K: LFieldHeap, Ref: p.Ref, T: st, Field: i}
	}
	return &Loc{K: LSub, Parent: p, T: st, Field: i}
}

func (x *exec) load(s *State, l *Loc, t types.Type) *Val {
	switch l.K {
	case LCell:
		v, ok := s.cells[l.Alloc]
		if !ok {
			v = x.mkVal(x.c.Zero(t), t)
			s.cells[l.Alloc] = v
		}
		return v
	case LGlobal:
		// package-level variables live in the heap map under G!<name> (lazily created, havocked by unknown calls)
		name := "G!" + sanitize(shortKey(l.Global.String()))
		return x.loaded(s, x.h.get(s, name, x.c.SortOf(t)), t)
	case LObj:
		if st, ok := t.Underlying().(*types.Struct); ok {
			si := x.c.structOf(t)
			if st.NumFields() == 0 {
				return x.mkVal(si.ctor, t)
			}
			var fs []string
			for i := range si.fields {
				fv := x.load(s, x.fieldLoc(l, t, i), si.ftypes[i])
				fs = append(fs, x.term(fv))
			}
			return x.mkVal(x.c.Let("ld", si.sort, App(si.ctor, fs...)), t)
		}
		name, sort := x.ptrArr(t)
		return x.loaded(s, Sel(x.h.get(s, name, sort), l.Ref), t)
	case LFieldHeap:
		name, sort := x.fieldArr(l.T, l.Field)
		v := x.loaded(s, Sel(x.h.get(s, name, sort), l.Ref), t)
		x.entryAlive(s, name, l.Ref, v)
		if _, isMap := t.Underlying().(*types.Map); isMap && !x.noAssume {
			// A-NOALIAS: two different map-typed fields of one object never hold the same map
			si := x.c.structOf(l.T)
			var ds []string
			for j, ft := range si.ftypes {
				if j == l.Field {
					continue
				}
				if _, ok := ft.Underlying().(*types.Map); ok && x.c.SortOf(ft) == x.c.SortOf(t) && types.Identical(ft.Underlying(), t.Underlying()) {
					n2, s2 := x.fieldArr(l.T, j)
					ds = append(ds, Not(Eq(x.term(v), Sel(x.h.get(s, n2, s2), l.Ref))))
				}
			}
			if len(ds) > 0 {
				x.assume(s, Or(Eq(x.term(v), "0"), And(ds...)))
				x.note("A-NOALIAS: distinct map-typed fields of one object hold distinct maps")
			}
		}
		return v
	case LElem:
		name, sort := x.elemArr(l.T)
		arr := Sel(x.h.get(s, name, sort), App("s-ref", l.Slice))
		return x.loaded(s, Sel(arr, x.c.EIdx(App("s-off", l.Slice), l.Idx)), t)
	case LSub:
		si := x.c.structOf(l.T)
		pv := x.load(s, l.Parent, l.T)
		return x.mkVal(App(si.fields[l.Field], x.term(pv)), t)
	case LIdx:
		pv := x.load(s, l.Parent, l.T)
		return x.mkVal(x.arrayGet(x.term(pv), l.Idx, l.T), t)
	}
	fail("load from location kind %d", l.K)
	return nil
}

// loaded wraps a heap read and records the well-formedness of the value read.
func (x *exec) loaded(s *State, term string, t types.Type) *Val {
	v := x.mkVal(term, t)
	if x.noAssume {
		return v
	}
	if wf := x.wf(term, t); wf != "true" {
		v.T = x.c.Let("ld", x.c.SortOf(t), term)
		x.assume(s, x.wf(v.T, t))
	}
	if al := x.aliveVal(s, v); al != "true" {
		x.assume(s, al)
	}
	return v
}

func (x *exec) store(s *State, l *Loc, v *Val, t types.Type) {
	switch l.K {
	case LCell:
		s.cells[l.Alloc] = v
	case LGlobal:
		name := "G!" + sanitize(shortKey(l.Global.String()))
		x.h.set(s, name, x.c.SortOf(t), x.term(v))
	case LObj:
		if _, ok := t.Underlying().(*types.Struct); ok {
			si := x.c.structOf(t)
			vt := x.term(v)
			for i := range si.fields {
				x.store(s, x.fieldLoc(l, t, i), x.mkVal(App(si.fields[i], vt), si.ftypes[i]), si.ftypes[i])
			}
			return
		}
		name, sort := x.ptrArr(t)
		x.h.set(s, name, sort, Sto(x.h.get(s, name, sort), l.Ref, x.term(v)))
	case LFieldHeap:
		name, sort := x.fieldArr(l.T, l.Field)
		x.h.set(s, name, sort, Sto(x.h.get(s, name, sort), l.Ref, x.term(v)))
	case LElem:
		name, sort := x.elemArr(l.T)
		h := x.h.get(s, name, sort)
		ref := App("s-ref", l.Slice)
		x.h.set(s, name, sort, Sto(h, ref, Sto(Sel(h, ref), x.c.EIdx(App("s-off", l.Slice), l.Idx), x.term(v))))
		x.clearCsprng(s, ref)
	case LSub:
		si := x.c.structOf(l.T)
		pv := x.term(x.load(s, l.Parent, l.T))
		var fs []string
		for i, f := range si.fields {
			if i == l.Field {
				fs = append(fs, x.term(v))
			} else {
				fs = append(fs, App(f, pv))
			}
		}
		x.store(s, l.Parent, x.mkVal(x.c.Let("upd", si.sort, App(si.ctor, fs...)), l.T), l.T)
	case LIdx:
		pv := x.term(x.load(s, l.Parent, l.T))
		x.store(s, l.Parent, x.mkVal(x.arraySet(pv, l.Idx, x.term(v), l.T), l.T), l.T)
	default:
		fail("store to location kind %d", l.K)
	}
}

// arrayGet reads element idx (index sort) of an array value.
func (x *exec) arrayGet(arr, idx string, at types.Type) string {
	n, ok := isByteArray(at)
	if !ok {
		return Sel(arr, idx)
	}
	bits := int(8 * n)
	var b string
	if k, isConst := x.constIdx(idx); isConst {
		if k < 0 || k >= n {
			b = "#x00"
		} else {
			b = fmt.Sprintf("((_ extract %d %d) %s)", 8*k+7, 8*k, arr)
		}
	} else {
		sh := x.idxToBV(idx, bits)
		b = fmt.Sprintf("((_ extract 7 0) (bvlshr %s (bvmul %s %s)))", arr, sh, bvLitInt(8, bits))
	}
	if x.c.Mode == ModeInt {
		return "(bv2nat " + b + ")"
	}
	return b
}

func (x *exec) arraySet(arr, idx, v string, at types.Type) string {
	n, ok := isByteArray(at)
	if !ok {
		return Sto(arr, idx, v)
	}
	bits := int(8 * n)
	if x.c.Mode == ModeInt {
		v = "((_ int2bv 8) " + v + ")"
	}
	ext := v
	if bits > 8 {
		ext = fmt.Sprintf("((_ zero_extend %d) %s)", bits-8, v)
	}
	var sh string
	if k, isConst := x.constIdx(idx); isConst {
		sh = bvLitInt(8*k, bits)
	} else {
		sh = fmt.Sprintf("(bvmul %s %s)", x.idxToBV(idx, bits), bvLitInt(8, bits))
	}
	mask := fmt.Sprintf("(bvnot (bvshl %s %s))", bvLitInt(255, bits), sh)
	return fmt.Sprintf("(bvor (bvand %s %s) (bvshl %s %s))", arr, mask, ext, sh)
}

func (x *exec) idxToBV(idx string, bits int) string {
	if x.c.Mode == ModeInt {
		return fmt.Sprintf("((_ int2bv %d) %s)", bits, idx)
	}
	switch {
	case bits == 64:
		return idx
	case bits < 64:
		return fmt.Sprintf("((_ extract %d 0) %s)", bits-1, idx)
	}
	return fmt.Sprintf("((_ zero_extend %d) %s)", bits-64, idx)
}

func (x *exec) constIdx(idx string) (int64, bool) {
	if x.c.Mode == ModeBV {
		if strings.HasPrefix(idx, "#x") && len(idx) == 18 {
			var v uint64
			if _, err := fmt.Sscanf(idx[2:], "%x", &v); err == nil {
				return int64(v), true
			}
		}
		return 0, false
	}
	var v int64
	if _, err := fmt.Sscanf(idx, "%d", &v); err == nil && fmt.Sprint(v) == idx {
		return v, true
	}
	return 0, false
}

func bvLitInt(v int64, bits int) string {
	return bvLit(bigInt(v), bits)
}

// merge joins several incoming states.
type incoming struct {
	cond string
	st   *State
}

func (x *exec) merge(ins []incoming, label string) *State {
	if len(ins) == 1 {
		s := ins[0].st.clone()
		s.reach = ins[0].cond
		return s
	}
	var conds []string
	for _, in := range ins {
		conds = append(conds, in.cond)
	}
	out := &State{cells: map[*ssa.Alloc]*Val{}, globals: map[*ssa.Global]*Val{}, heap: map[string]string{}, ghost: map[string]*Val{}}
	gh := map[string]bool{}
	for _, in := range ins {
		for k := range in.st.ghost {
			gh[k] = true
		}
	}
	for k := range gh {
		var vs []*Val
		ok := true
		for _, in := range ins {
			v, has := in.st.ghost[k]
			if !has {
				ok = false
				break
			}
			vs = append(vs, v)
		}
		if ok {
			out.ghost[k] = x.mergeVals(conds, vs, "ghost")
		}
	}
	out.reach = x.c.Define(x.c.Fresh("reach."+label), "Bool", Or(conds...))
	// refs known alive on every incoming path
	for _, r := range ins[0].st.aliveRefs {
		all := true
		for _, in := range ins[1:] {
			found := false
			for _, q := range in.st.aliveRefs {
				if q == r {
					found = true
					break
				}
			}
			if !found {
				all = false
				break
			}
		}
		if all {
			out.aliveRefs = append(out.aliveRefs, r)
		}
	}
	same := true
	for _, in := range ins[1:] {
		if in.st.epoch != ins[0].st.epoch {
			same = false
		}
	}
	if same {
		out.epoch = ins[0].st.epoch
	} else {
		out.epoch = x.c.Fresh("e")
		if x.h.epochMerge == nil {
			x.h.epochMerge = map[string][]epochPart{}
		}
		var parts []epochPart
		for i, in := range ins {
			parts = append(parts, epochPart{conds[i], in.st.epoch})
		}
		x.h.epochMerge[out.epoch] = parts
	}
	// cells
	cellSet := map[*ssa.Alloc]bool{}
	for _, in := range ins {
		for k := range in.st.cells {
			cellSet[k] = true
		}
	}
	var allocs []*ssa.Alloc
	for k := range cellSet {
		allocs = append(allocs, k)
	}
	sort.Slice(allocs, func(i, j int) bool { return allocs[i].Pos() < allocs[j].Pos() || allocs[i].Pos() == allocs[j].Pos() && allocs[i].Name() < allocs[j].Name() })
	for _, a := range allocs {
		var vs []*Val
		var have *Val
		for _, in := range ins {
			if v, has := in.st.cells[a]; has {
				have = v
			}
		}
		ok := true
		for _, in := range ins {
			v, has := in.st.cells[a]
			if !has {
				// not declared on that path (the variable is dead there): an arbitrary value, so that
				// postconditions may still mention the variable on the paths where it exists
				if have == nil || have.T == "" || have.Typ == nil || have.SetSort != "" {
					ok = false
					break
				}
				v = x.mkVal(x.c.FreshConst("undecl."+a.Comment, x.c.SortOf(have.Typ)), have.Typ)
			}
			vs = append(vs, v)
		}
		if !ok {
			continue
		}
		out.cells[a] = x.mergeVals(conds, vs, "c."+a.Comment)
	}
	gset := map[*ssa.Global]bool{}
	for _, in := range ins {
		for k := range in.st.globals {
			gset[k] = true
		}
	}
	for g := range gset {
		var vs []*Val
		ok := true
		for _, in := range ins {
			v, has := in.st.globals[g]
			if !has {
				ok = false
				break
			}
			vs = append(vs, v)
		}
		if ok {
			out.globals[g] = x.mergeVals(conds, vs, "g."+g.Name())
		}
	}
	hset := map[string]bool{}
	for _, in := range ins {
		for k := range in.st.heap {
			hset[k] = true
		}
	}
	var hs []string
	for k := range hset {
		hs = append(hs, k)
	}
	sort.Strings(hs)
	for _, name := range hs {
		sortN := x.h.sorts[name]
		var ts []string
		for _, in := range ins {
			ts = append(ts, x.h.get(in.st, name, sortN))
		}
		out.heap[name] = x.mergeTerms(conds, ts, name, sortN)
	}
	return out
}

func (x *exec) mergeTerms(conds, ts []string, stem, sortN string) string {
	all := true
	for _, t := range ts[1:] {
		if t != ts[0] {
			all = false
		}
	}
	if all {
		return ts[0]
	}
	r := ts[len(ts)-1]
	for i := len(ts) - 2; i >= 0; i-- {
		r = Ite(conds[i], ts[i], r)
	}
	return x.c.Define(x.c.Fresh(stem), sortN, r)
}

func (x *exec) mergeVals(conds []string, vs []*Val, stem string) *Val {
	same := true
	for _, v := range vs[1:] {
		if v != vs[0] {
			same = false
		}
	}
	if same {
		return vs[0]
	}
	v0 := vs[0]
	if v0.Clo != nil || v0.Tup != nil {
		for _, v := range vs[1:] {
			if v.Clo == nil || v0.Clo == nil || v.Clo.Instr != v0.Clo.Instr {
				if v0.Tup != nil {
					return &Val{Typ: v0.Typ}
				}
				// different function values (or a function literal and nil): which one is not tracked,
				// but whether the value is nil is — a function literal is never nil
				var ts []string
				for _, w := range vs {
					if w.Clo != nil {
						ts = append(ts, x.cloTerm(w))
					} else if w.T != "" {
						ts = append(ts, w.T)
					} else {
						return &Val{Typ: v0.Typ}
					}
				}
				return &Val{T: x.mergeTerms(conds, ts, stem, "Int"), Typ: v0.Typ}
			}
		}
		return v0
	}
	if isFuncType(v0.Typ) {
		for _, w := range vs[1:] {
			if w.Clo != nil {
				var ts []string
				for _, u := range vs {
					if u.Clo != nil {
						ts = append(ts, x.cloTerm(u))
					} else if u.T != "" {
						ts = append(ts, u.T)
					} else {
						return &Val{Typ: v0.Typ}
					}
				}
				return &Val{T: x.mergeTerms(conds, ts, stem, "Int"), Typ: v0.Typ}
			}
		}
	}
	var ts []string
	for _, v := range vs {
		if v.T == "" {
			// pointer without a term (interior pointer): only mergeable when identical
			return &Val{Typ: v0.Typ}
		}
		ts = append(ts, v.T)
	}
	if v0.SetSort != "" {
		return &Val{T: x.mergeTerms(conds, ts, stem, v0.SetSort), Typ: v0.Typ, SetSort: v0.SetSort}
	}
	t := x.mergeTerms(conds, ts, stem, x.c.SortOf(v0.Typ))
	nv := x.mkVal(t, v0.Typ)
	// keep array origin when all agree
	return nv
}

// entryAlive: a pointer read from a field that has not been written since function entry, of an object
// that existed at entry, designates an object that existed at entry (or nil): the entry heap has no
// dangling references (A-WFHEAP — Go's memory safety). Without it a freshly allocated object could be
// "found" behind an old field.
func (x *exec) entryAlive(s *State, name, ref string, v *Val) {
	if v.Typ == nil || s.heap[name] != name+"@0" {
		return
	}
	var r string
	switch v.Typ.Underlying().(type) {
	case *types.Pointer, *types.Map:
		r = x.term(v)
	case *types.Slice:
		r = App("s-ref", x.term(v))
	default:
		return
	}
	if _, ok := x.c.idx["alive@0"]; !ok {
		return
	}
	// an embedded (by-value) struct lives and dies with its outermost enclosing object
	owner := ref
	for strings.HasPrefix(owner, "(sub!") {
		i := strings.Index(owner, " ")
		if i < 0 {
			break
		}
		owner = strings.TrimSuffix(owner[i+1:], ")")
	}
	fact := Imp(Sel("alive@0", owner), Or(Eq(r, "0"), Sel("alive@0", r)))
	if x.noAssume {
		// read inside a specification: the fact speaks of the entry heap only, so when it mentions no bound
		// variable (quantifier or spec-function parameter) it holds globally in this proof
		if strings.Contains(fact, "q.") || strings.Contains(fact, "sp!") || strings.Contains(fact, "hp!") {
			return
		}
		if x.wfSeen == nil {
			x.wfSeen = map[string]bool{}
		}
		if !x.wfSeen[fact] {
			x.wfSeen[fact] = true
			x.c.Axiom([]string{name + "@0"}, fact)
		}
		return
	}
	x.assume(s, fact)
}

// cloTerm gives a function literal (or named function) value a term: a non-nil constant of its own.
func (x *exec) cloTerm(v *Val) string {
	if v.T == "" {
		v.T = x.c.FreshConst("fn", "Int")
		x.c.Axiom([]string{v.T}, Not(Eq(v.T, "0")))
	}
	return v.T
}
