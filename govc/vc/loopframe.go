package vc

import (
	"fmt"
	"sort"
	"strings"

	"golang.org/x/tools/go/ssa"
)

// inferLoopFrame: an inferred object-level frame for the heap arrays a loop modifies.
//
// The body is executed once more (dry) from the havocked loop-head state, recording for every heap write the
// object it goes to. If every object that array n is written at is named by a term that does not depend on
// anything the loop changes — no symbol introduced by the havoc or during that run, transitively through
// definitions — then those terms have the same value in every iteration, so in every iteration the loop
// writes n only at those objects, and at each loop head every other object of n is as it was at loop entry.
// That fact is assumed for the loop-head state. (Loops of the function under proof with a `modifies`
// clause already get the contract's frame; this adds the frame for loops in change closures and in functions
// without one.)
func (x *exec) inferLoopFrame(fr *frame, li *loopInfo, body []*ssa.BasicBlock, sin, s *State, havocked []string, mark int) {
	want := map[string]bool{}
	for _, n := range havocked {
		if n != "alive" && !frameExempt(n) {
			want[n] = true
		}
	}
	if len(want) == 0 {
		return
	}
	writes := map[string][]string{}
	unknown := map[string]bool{}
	savedVals := map[ssa.Value]*Val{}
	for k, v := range fr.vals {
		savedVals[k] = v
	}
	savedPending := fr.pending
	savedOut := map[*ssa.BasicBlock]*State{}
	for _, bb := range body {
		if st, ok := fr.out[bb]; ok {
			savedOut[bb] = st
		}
	}
	x.dry++
	nObl := len(x.obligs)
	x.h.onSet = func(name, term string) {
		if !want[name] {
			return
		}
		ref, ok := storeRef(term)
		if !ok {
			unknown[name] = true
			return
		}
		writes[name] = append(writes[name], ref)
	}
	ds := s.clone()
	x.block(fr, li.head, ds)
	x.runBlocks(fr, body[1:], nil)
	epochChanged := false
	for _, l := range li.latches {
		if ls, ok := fr.out[l]; ok && ls.epoch != s.epoch {
			epochChanged = true
		}
	}
	x.h.onSet = nil
	x.dry--
	x.obligs = x.obligs[:nObl]
	for _, bb := range body {
		delete(fr.out, bb)
	}
	for bb, st := range savedOut {
		fr.out[bb] = st
	}
	fr.vals = savedVals
	fr.pending = savedPending
	if epochChanged {
		return
	}
	var names []string
	for n := range want {
		names = append(names, n)
	}
	sort.Strings(names)
	for _, n := range names {
		if unknown[n] || len(writes[n]) == 0 {
			continue
		}
		seen := map[string]bool{}
		var refs []string
		ok := true
		for _, r := range writes[n] {
			if seen[r] {
				continue
			}
			seen[r] = true
			if x.c.DependsOnAfter(r, mark, s.epoch) {
				ok = false
				break
			}
			refs = append(refs, r)
		}
		if !ok || len(refs) > 6 {
			continue
		}
		q := x.c.Fresh("lf")
		var ne []string
		for _, r := range refs {
			ne = append(ne, Not(Eq(q, r)))
		}
		t0, t1 := x.h.get(sin, n, x.h.sorts[n]), s.heap[n]
		x.assume(s, fmt.Sprintf("(forall ((%s Int)) (! (=> %s (= (select %s %s) (select %s %s))) :pattern ((select %s %s))))", q, And(ne...), t1, q, t0, q, t1, q))
		x.note("A-LOOPFRAME: loop %d of %s writes %s only at objects that are the same in every iteration; the other objects are as at loop entry (inferred)", li.ordinal, shortKey(fr.fn.String()), shortHeapName(n))
	}
}

// storeRef returns the index of a term of the form (store A ref V).
func storeRef(t string) (string, bool) {
	if !strings.HasPrefix(t, "(store ") {
		return "", false
	}
	args := splitArgs(t[len("(store ") : len(t)-1])
	if len(args) != 3 {
		return "", false
	}
	return args[1], true
}

// splitArgs splits the top-level arguments of an s-expression body.
func splitArgs(s string) []string {
	var out []string
	depth, start := 0, -1
	inStr := false
	for i := 0; i < len(s); i++ {
		c := s[i]
		if inStr {
			if c == '"' {
				inStr = false
			}
			continue
		}
		switch {
		case c == '"':
			inStr = true
			if start < 0 {
				start = i
			}
		case c == '(':
			if depth == 0 && start < 0 {
				start = i
			}
			depth++
		case c == ')':
			depth--
			if depth == 0 && start >= 0 && s[start] == '(' {
				out = append(out, s[start:i+1])
				start = -1
			}
		case c == ' ' || c == '\n' || c == '\t':
			if depth == 0 && start >= 0 {
				out = append(out, s[start:i])
				start = -1
			}
		default:
			if start < 0 {
				start = i
			}
		}
	}
	if start >= 0 {
		out = append(out, s[start:])
	}
	return out
}
