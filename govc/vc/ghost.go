package vc

import (
	"fmt"
	"go/token"
	"go/types"
	"sort"

	"golang.org/x/tools/go/ssa"
)

// verifyGhost checks a ghost function: a straight-line sequence of calls that is
// reasoned about with the callees' contracts only (a lemma over contracts).
func (p *Prog) verifyGhost(con *Contract) (res *FuncResult) {
	res = &FuncResult{Key: con.Key, Con: con, Mode: con.Mode, SSAHash: "ghost"}
	res.Pos = token.Position{Filename: con.File, Line: con.Line}
	x := &exec{p: p, c: NewCtx(con.Mode), con: con, subAx: map[string]bool{}, notes: map[string]bool{},
		specFns: map[string]*specFn{}, pureFns: map[string]bool{}, fnName: con.Key}
	x.h = &heapEnv{c: x.c, sorts: map[string]string{}}
	defer func() {
		if r := recover(); r != nil {
			if u, ok := r.(unsupported); ok {
				res.Err = u.Error()
				res.Obligs = nil
				return
			}
			panic(r)
		}
	}()
	tp := p.typesPkg(con.PkgPath)
	st := &State{reach: "true", cells: map[*ssa.Alloc]*Val{}, globals: map[*ssa.Global]*Val{}, heap: map[string]string{}, ghost: map[string]*Val{}, epoch: "0"}
	fr := &frame{vals: map[ssa.Value]*Val{}, top: true, ranges: map[*ssa.Range]*rangeVal{}}
	vars := map[string]*Val{}
	for i, name := range con.Params {
		t := p.resolveType(con.SpecPTys[i], tp)
		term := x.c.Const("in."+sanitize(name), x.c.SortOf(t))
		v := x.mkVal(term, t)
		vars[name] = v
		x.assume(st, x.wf(term, t))
		x.assume(st, x.aliveVal(st, v))
	}
	env := &Env{x: x, vars: vars, st: st, pkg: tp, fnPkg: con.PkgPath}
	for _, r := range con.Requires {
		x.assume(st, x.evalBool(r.E, env))
	}
	st.reach = x.c.Define("reach.entry", "Bool", st.reach)
	pos := token.NoPos
	x.obligs = append(x.obligs, &Oblig{Base: "cover:requires", Kind: "cover", Func: con.Key, Hyp: st.reach, Goal: "true", Cover: true, C: x.c, Pos: res.Pos})
	entry := st.clone()
	for k, gc := range con.Calls {
		m, recv, args := x.resolveGhostCall(gc.Call, env)
		key := funcKey(m)
		cc := p.Contracts.ByKey[key]
		if cc == nil {
			fail("ghost call %d: %s has no contract", k+1, key)
		}
		sig := m.Type().(*types.Signature)
		var avs []*Val
		if recv != nil {
			avs = append(avs, recv)
		}
		for i, a := range args {
			var h types.Type
			if i < sig.Params().Len() {
				h = sig.Params().At(i).Type()
			}
			avs = append(avs, x.eval(a, env, h))
		}
		fr.prefix = fmt.Sprintf("call%d.", k+1)
		r := x.applyContract(fr, st, cc, sig, avs, pos, key)
		if len(gc.Vars) > 0 {
			if len(gc.Vars) == 1 {
				vars[gc.Vars[0]] = r
			} else {
				for i, n := range gc.Vars {
					if i < len(r.Tup) && n != "_" {
						vars[n] = r.Tup[i]
					}
				}
			}
		}
	}
	fr.prefix = ""
	post := &Env{x: x, vars: vars, st: st, old: entry, pkg: tp, fnPkg: con.PkgPath}
	for i, e := range con.Ensures {
		label := e.Label
		if label == "" {
			label = fmt.Sprint(i + 1)
		}
		x.oblig(fr, st.clone(), "post", label, pos, x.evalBool(e.E, post), e.Props)
	}
	for _, o := range x.obligs {
		o.Name = shortKey(con.Key) + "#" + o.Base
		o.Pos = res.Pos
	}
	res.Obligs = x.obligs
	for n := range x.notes {
		res.Notes = append(res.Notes, n)
	}
	sort.Strings(res.Notes)
	return
}

// resolveGhostCall finds the Go function or method a ghost call designates.
func (x *exec) resolveGhostCall(c *ECall, env *Env) (*types.Func, *Val, []Expr) {
	switch f := c.Fun.(type) {
	case *EId:
		if env.pkg != nil {
			if obj, ok := env.pkg.Scope().Lookup(f.Name).(*types.Func); ok {
				return obj, nil, c.Args
			}
		}
	case *ESel:
		if id, ok := f.X.(*EId); ok {
			if _, isVar := env.vars[id.Name]; !isVar {
				if p := x.findPkg(env.pkg, id.Name); p != nil {
					if obj, ok := p.Scope().Lookup(f.Name).(*types.Func); ok {
						return obj, nil, c.Args
					}
				}
			}
		}
		recv := x.eval(f.X, env, nil)
		obj, _, _ := types.LookupFieldOrMethod(recv.Typ, true, pkgOfType(recv.Typ), f.Name)
		if m, ok := obj.(*types.Func); ok {
			return m, recv, c.Args
		}
	}
	fail("ghost call: cannot resolve %s", ExprString(c.Fun))
	return nil, nil, nil
}
