package vc

import (
	"fmt"
	"strings"
)

// ---- spec expression AST ----

type Expr interface{}

type EId struct{ Name string }
type ELit struct {
	Kind string // int, string, char, bool, nil
	Val  string
}
type EUn struct {
	Op string
	X  Expr
}
type EBin struct {
	Op   string
	X, Y Expr
}
type ECall struct {
	Fun  Expr
	Args []Expr
}
type ESel struct {
	X    Expr
	Name string
}
type EIdx struct{ X, I Expr }
type ESlice struct{ X, Lo, Hi Expr }
type EQuant struct {
	Forall bool
	Vars   [][2]string // name, type text
	Body   Expr
}
type ECond struct{ C, A, B Expr }

type tok struct {
	k string // id int str chr op eof
	s string
}

type lexer struct {
	src  string
	toks []tok
	p    int
}

var ops3 = []string{"<==>", "==>", "&&", "||", "==", "!=", "<=", ">=", "<<", ">>", "&^", "::"}

func lex(src string) ([]tok, error) {
	var out []tok
	i := 0
	for i < len(src) {
		ch := src[i]
		switch {
		case ch == ' ' || ch == '\t' || ch == '\n':
			i++
		case ch >= '0' && ch <= '9':
			j := i
			for j < len(src) && (src[j] >= '0' && src[j] <= '9' || src[j] >= 'a' && src[j] <= 'f' || src[j] >= 'A' && src[j] <= 'F' || src[j] == 'x' || src[j] == 'X' || src[j] == '_') {
				j++
			}
			if j+1 < len(src) && src[j] == '.' && src[j+1] >= '0' && src[j+1] <= '9' && !strings.HasPrefix(src[i:j], "0x") {
				// decimal fraction: a float64 literal
				j++
				for j < len(src) && src[j] >= '0' && src[j] <= '9' {
					j++
				}
				out = append(out, tok{"float", src[i:j]})
				i = j
				break
			}
			out = append(out, tok{"int", strings.ReplaceAll(src[i:j], "_", "")})
			i = j
		case ch == '_' || ch == '$' || ch >= 'a' && ch <= 'z' || ch >= 'A' && ch <= 'Z':
			j := i
			for j < len(src) && (src[j] == '_' || src[j] == '$' || src[j] >= 'a' && src[j] <= 'z' || src[j] >= 'A' && src[j] <= 'Z' || src[j] >= '0' && src[j] <= '9') {
				j++
			}
			out = append(out, tok{"id", src[i:j]})
			i = j
		case ch == '"':
			j := i + 1
			for j < len(src) && src[j] != '"' {
				if src[j] == '\\' {
					j++
				}
				j++
			}
			if j >= len(src) {
				return nil, fmt.Errorf("unterminated string")
			}
			out = append(out, tok{"str", src[i+1 : j]})
			i = j + 1
		case ch == '\'':
			j := i + 1
			for j < len(src) && src[j] != '\'' {
				j++
			}
			out = append(out, tok{"chr", src[i+1 : j]})
			i = j + 1
		default:
			matched := false
			for _, o := range ops3 {
				if strings.HasPrefix(src[i:], o) {
					out = append(out, tok{"op", o})
					i += len(o)
					matched = true
					break
				}
			}
			if !matched {
				out = append(out, tok{"op", string(ch)})
				i++
			}
		}
	}
	out = append(out, tok{"eof", ""})
	return out, nil
}

type sparser struct {
	toks []tok
	p    int
	src  string
}

func ParseExpr(src string) (e Expr, err error) {
	toks, err := lex(src)
	if err != nil {
		return nil, err
	}
	ps := &sparser{toks: toks, src: src}
	defer func() {
		if r := recover(); r != nil {
			if s, ok := r.(string); ok {
				err = fmt.Errorf("spec parse error: %s in %q", s, src)
				return
			}
			panic(r)
		}
	}()
	e = ps.expr()
	if ps.peek().k != "eof" {
		panic(fmt.Sprintf("unexpected %q", ps.peek().s))
	}
	return e, nil
}

func (p *sparser) peek() tok { return p.toks[p.p] }
func (p *sparser) next() tok { t := p.toks[p.p]; p.p++; return t }
func (p *sparser) isOp(s string) bool {
	t := p.peek()
	return t.k == "op" && t.s == s
}
func (p *sparser) accept(s string) bool {
	if p.isOp(s) {
		p.p++
		return true
	}
	return false
}
func (p *sparser) expect(s string) {
	if !p.accept(s) {
		panic(fmt.Sprintf("expected %q, found %q", s, p.peek().s))
	}
}

func (p *sparser) expr() Expr {
	t := p.peek()
	if t.k == "id" && (t.s == "forall" || t.s == "exists") {
		p.next()
		q := &EQuant{Forall: t.s == "forall"}
		for {
			name := p.next()
			if name.k != "id" {
				panic("quantifier variable expected")
			}
			// type text up to ',' or '::' at depth 0
			var ty []string
			depth := 0
			for {
				u := p.peek()
				if u.k == "eof" {
					panic("'::' expected in quantifier")
				}
				if depth == 0 && u.k == "op" && (u.s == "," || u.s == "::") {
					break
				}
				if u.k == "op" && (u.s == "[" || u.s == "(") {
					depth++
				}
				if u.k == "op" && (u.s == "]" || u.s == ")") {
					depth--
				}
				ty = append(ty, u.s)
				p.next()
			}
			q.Vars = append(q.Vars, [2]string{name.s, joinType(ty)})
			if p.accept(",") {
				continue
			}
			p.expect("::")
			break
		}
		q.Body = p.expr()
		return q
	}
	return p.iff()
}

func joinType(ts []string) string {
	var b strings.Builder
	for i, t := range ts {
		if i > 0 && isWord(ts[i-1]) && isWord(t) {
			b.WriteByte(' ')
		}
		b.WriteString(t)
	}
	return b.String()
}

func isWord(s string) bool {
	return s != "" && (s[0] == '_' || s[0] >= 'a' && s[0] <= 'z' || s[0] >= 'A' && s[0] <= 'Z')
}

func (p *sparser) iff() Expr {
	x := p.imp()
	for p.accept("<==>") {
		y := p.imp()
		x = &EBin{"<==>", x, y}
	}
	return x
}

func (p *sparser) imp() Expr {
	x := p.cond()
	if p.accept("==>") {
		var y Expr
		t := p.peek()
		if t.k == "id" && (t.s == "forall" || t.s == "exists") {
			y = p.expr()
		} else {
			y = p.imp()
		}
		return &EBin{"==>", x, y}
	}
	return x
}

func (p *sparser) cond() Expr {
	c := p.lor()
	if p.accept("?") {
		a := p.cond()
		p.expect(":")
		b := p.cond()
		return &ECond{c, a, b}
	}
	return c
}

func (p *sparser) lor() Expr {
	x := p.land()
	for p.accept("||") {
		x = &EBin{"||", x, p.land()}
	}
	return x
}

func (p *sparser) land() Expr {
	x := p.cmp()
	for p.accept("&&") {
		t := p.peek()
		if t.k == "id" && (t.s == "forall" || t.s == "exists") {
			x = &EBin{"&&", x, p.expr()}
			return x
		}
		x = &EBin{"&&", x, p.cmp()}
	}
	return x
}

func (p *sparser) cmp() Expr {
	x := p.add()
	for {
		t := p.peek()
		if t.k == "op" && (t.s == "==" || t.s == "!=" || t.s == "<" || t.s == "<=" || t.s == ">" || t.s == ">=") {
			p.next()
			x = &EBin{t.s, x, p.add()}
			continue
		}
		if t.k == "id" && t.s == "in" {
			p.next()
			x = &EBin{"in", x, p.add()}
			continue
		}
		return x
	}
}

func (p *sparser) add() Expr {
	x := p.mul()
	for {
		t := p.peek()
		if t.k == "op" && (t.s == "+" || t.s == "-" || t.s == "|" || t.s == "^") {
			p.next()
			x = &EBin{t.s, x, p.mul()}
			continue
		}
		return x
	}
}

func (p *sparser) mul() Expr {
	x := p.unary()
	for {
		t := p.peek()
		if t.k == "op" && (t.s == "*" || t.s == "/" || t.s == "%" || t.s == "<<" || t.s == ">>" || t.s == "&" || t.s == "&^") {
			p.next()
			x = &EBin{t.s, x, p.unary()}
			continue
		}
		return x
	}
}

func (p *sparser) unary() Expr {
	t := p.peek()
	if t.k == "op" && (t.s == "!" || t.s == "-" || t.s == "^" || t.s == "*") {
		p.next()
		return &EUn{t.s, p.unary()}
	}
	return p.postfix()
}

func (p *sparser) postfix() Expr {
	x := p.primary()
	for {
		switch {
		case p.accept("."):
			n := p.next()
			if n.k != "id" {
				panic("field name expected")
			}
			x = &ESel{x, n.s}
		case p.accept("("):
			var args []Expr
			if !p.accept(")") {
				for {
					args = append(args, p.expr())
					if p.accept(",") {
						continue
					}
					p.expect(")")
					break
				}
			}
			x = &ECall{x, args}
		case p.accept("["):
			var lo, hi Expr
			if p.isOp(":") {
				p.next()
				if !p.isOp("]") {
					hi = p.expr()
				}
				p.expect("]")
				x = &ESlice{x, nil, hi}
				continue
			}
			lo = p.expr()
			if p.accept(":") {
				if !p.isOp("]") {
					hi = p.expr()
				}
				p.expect("]")
				x = &ESlice{x, lo, hi}
				continue
			}
			p.expect("]")
			x = &EIdx{x, lo}
		default:
			return x
		}
	}
}

func (p *sparser) primary() Expr {
	t := p.next()
	switch t.k {
	case "int":
		return &ELit{"int", t.s}
	case "float":
		return &ELit{"float", t.s}
	case "str":
		return &ELit{"string", t.s}
	case "chr":
		return &ELit{"char", t.s}
	case "id":
		switch t.s {
		case "true", "false":
			return &ELit{"bool", t.s}
		case "nil":
			return &ELit{"nil", ""}
		case "forall", "exists":
			p.p--
			return p.expr()
		}
		return &EId{t.s}
	case "op":
		if t.s == "(" {
			e := p.expr()
			p.expect(")")
			return e
		}
		if t.s == "[" && p.isOp("]") {
			// slice type used as a conversion: []byte(e)
			p.next()
			n := p.next()
			if n.k != "id" {
				panic("element type expected after []")
			}
			return &EId{"[]" + n.s}
		}
	}
	panic(fmt.Sprintf("unexpected %q", t.s))
}

// ExprString renders an expression (used in obligation names).
func ExprString(e Expr) string {
	switch x := e.(type) {
	case *EId:
		return x.Name
	case *ELit:
		if x.Kind == "string" {
			return "\"" + x.Val + "\""
		}
		if x.Kind == "nil" {
			return "nil"
		}
		return x.Val
	case *EUn:
		return x.Op + ExprString(x.X)
	case *EBin:
		return "(" + ExprString(x.X) + x.Op + ExprString(x.Y) + ")"
	case *ECall:
		var as []string
		for _, a := range x.Args {
			as = append(as, ExprString(a))
		}
		return ExprString(x.Fun) + "(" + strings.Join(as, ",") + ")"
	case *ESel:
		return ExprString(x.X) + "." + x.Name
	case *EIdx:
		return ExprString(x.X) + "[" + ExprString(x.I) + "]"
	case *ESlice:
		lo, hi := "", ""
		if x.Lo != nil {
			lo = ExprString(x.Lo)
		}
		if x.Hi != nil {
			hi = ExprString(x.Hi)
		}
		return ExprString(x.X) + "[" + lo + ":" + hi + "]"
	case *EQuant:
		q := "exists"
		if x.Forall {
			q = "forall"
		}
		var vs []string
		for _, v := range x.Vars {
			vs = append(vs, v[0]+" "+v[1])
		}
		return q + " " + strings.Join(vs, ",") + "::" + ExprString(x.Body)
	case *ECond:
		return "(" + ExprString(x.C) + "?" + ExprString(x.A) + ":" + ExprString(x.B) + ")"
	}
	return "?"
}
