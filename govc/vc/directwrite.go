package vc

import (
	"fmt"
	"go/types"
	"sort"

	"golang.org/x/tools/go/ssa"
)

// verifyDirectWrites decides `forbid props Cxx write outside-pairs except F G …`: in every function of the
// package that records change pairs (it, or a function literal of it, calls History.Append), the function's own
// body — outside the literals — does not write state that outlives the call: no map assignment, no delete, no
// store through a field or element address whose base is reached from a parameter, the receiver, a captured
// variable or a package variable. Such a write happens when the block is processed but is not undone when the
// block is disconnected. Writes into objects the function itself allocated are not flagged; values returned by
// calls are treated as local (the scan under-approximates there). `except` names functions whose direct writes
// are deliberate (scratch state that is rebuilt for every block), each with its reason in the contract file.
func (p *Prog) verifyDirectWrites(fb *Forbid, all map[*ssa.Function]bool, res *FuncResult) {
	exempt := map[string]bool{}
	for _, e := range fb.Except {
		exempt[e] = true
	}
	type hit struct {
		fn   *ssa.Function
		what string
		pos  string
	}
	var hits []hit
	nfun := 0
	for fn := range all {
		if fn.Pkg == nil || fn.Pkg.Pkg.Path() != fb.PkgPath || fn.Parent() != nil || fn.Blocks == nil || fn.Synthetic != "" {
			continue
		}
		appends := callsAppend(fn, 0)
		for _, af := range fn.AnonFuncs {
			if callsAppend(af, 1) {
				appends = true
			}
		}
		if !appends {
			continue
		}
		if exempt[fn.Name()] {
			continue
		}
		nfun++
		for _, b := range fn.Blocks {
			for _, in := range b.Instrs {
				switch i := in.(type) {
				case *ssa.MapUpdate:
					if w := persistentRoot(i.Map, 0); w != "" {
						hits = append(hits, hit{fn, "map:" + w, p.Fset.Position(i.Pos()).String()})
					}
				case *ssa.Store:
					switch a := i.Addr.(type) {
					case *ssa.FieldAddr:
						if w := persistentRoot(a.X, 0); w != "" {
							hits = append(hits, hit{fn, "field:" + fieldName(a), p.Fset.Position(i.Pos()).String()})
						}
					case *ssa.IndexAddr:
						if w := persistentRoot(a.X, 0); w != "" {
							hits = append(hits, hit{fn, "elem:" + w, p.Fset.Position(i.Pos()).String()})
						}
					}
				case *ssa.Call:
					if bi, ok := i.Call.Value.(*ssa.Builtin); ok && bi.Name() == "delete" && len(i.Call.Args) > 0 {
						if w := persistentRoot(i.Call.Args[0], 0); w != "" {
							hits = append(hits, hit{fn, "delete:" + w, p.Fset.Position(i.Pos()).String()})
						}
					}
				}
			}
		}
	}
	base := shortKey(fb.PkgPath) + "#forbid:write-outside-pairs"
	if len(hits) == 0 {
		res.Obligs = append(res.Obligs, &Oblig{Name: base, Base: "forbid", Kind: "forbid", Func: fb.PkgPath, Hyp: "true", Goal: "true", Props: fb.Props,
			Static: "ok", Note: fmt.Sprintf("%d functions of %s record change pairs; none of them writes lasting state outside its pairs", nfun, shortKey(fb.PkgPath))})
		return
	}
	res.Obligs = append(res.Obligs, &Oblig{Name: base + ":scanned", Base: "forbid", Kind: "forbid", Func: fb.PkgPath, Hyp: "true", Goal: "true", Props: fb.Props,
		Static: "ok", Note: fmt.Sprintf("%d functions of %s that record change pairs scanned", nfun, shortKey(fb.PkgPath))})
	sort.Slice(hits, func(i, j int) bool { return hits[i].pos < hits[j].pos })
	seen := map[string]int{}
	for _, h := range hits {
		n := shortKey(h.fn.String()) + "#directwrite:" + sanitize(h.what)
		seen[n]++
		if seen[n] > 1 {
			n = fmt.Sprintf("%s@%d", n, seen[n])
		}
		o := &Oblig{Name: n, Base: "forbid", Kind: "forbid", Func: h.fn.String(), Hyp: "true", Goal: "false", Props: fb.Props,
			Static: "violated", Note: fmt.Sprintf("%s writes %s at %s outside the change pairs it records: the write is not undone when the block is disconnected", shortKey(h.fn.String()), h.what, h.pos)}
		o.Pos = p.Fset.Position(h.fn.Pos())
		res.Obligs = append(res.Obligs, o)
	}
}

func fieldName(fa *ssa.FieldAddr) string {
	if pt, ok := fa.X.Type().Underlying().(*types.Pointer); ok {
		if st, ok := pt.Elem().Underlying().(*types.Struct); ok {
			tn := "struct"
			if nt, ok := pt.Elem().(*types.Named); ok {
				tn = nt.Obj().Name()
			}
			return tn + "." + st.Field(fa.Field).Name()
		}
	}
	return "?"
}

// persistentRoot follows an address / map / slice value back to where it comes from and names the root when it
// outlives the function (parameter, captured variable, package variable); "" for local allocations, call
// results and anything else.
func persistentRoot(v ssa.Value, depth int) string {
	if depth > 12 {
		return ""
	}
	switch u := v.(type) {
	case *ssa.Parameter:
		return u.Name()
	case *ssa.FreeVar:
		return u.Name()
	case *ssa.Global:
		return u.Name()
	case *ssa.FieldAddr:
		if r := persistentRoot(u.X, depth+1); r != "" {
			return r + "." + fieldNameShort(u)
		}
	case *ssa.Field:
		return persistentRoot(u.X, depth+1)
	case *ssa.IndexAddr:
		return persistentRoot(u.X, depth+1)
	case *ssa.Index:
		return persistentRoot(u.X, depth+1)
	case *ssa.Lookup:
		if r := persistentRoot(u.X, depth+1); r != "" {
			return r + "[…]"
		}
	case *ssa.UnOp:
		// a load: *addr — what the address holds lives as long as the address's base. A load of a local
		// variable that was assigned a lasting value is followed through its stores.
		if a, ok := u.X.(*ssa.Alloc); ok {
			if refs := a.Referrers(); refs != nil {
				for _, r := range *refs {
					if st, ok := r.(*ssa.Store); ok && st.Addr == a {
						if w := persistentRoot(st.Val, depth+1); w != "" {
							return w
						}
					}
				}
			}
			return ""
		}
		return persistentRoot(u.X, depth+1)
	case *ssa.Slice:
		return persistentRoot(u.X, depth+1)
	case *ssa.ChangeType:
		return persistentRoot(u.X, depth+1)
	case *ssa.MakeInterface:
		return persistentRoot(u.X, depth+1)
	case *ssa.TypeAssert:
		return persistentRoot(u.X, depth+1)
	case *ssa.Extract:
		// comma-ok lookup / type assertion results
		return persistentRoot(u.Tuple, depth+1)
	case *ssa.Phi:
		for _, e := range u.Edges {
			if w := persistentRoot(e, depth+1); w != "" {
				return w
			}
		}
	}
	return ""
}

func fieldNameShort(fa *ssa.FieldAddr) string {
	if pt, ok := fa.X.Type().Underlying().(*types.Pointer); ok {
		if st, ok := pt.Elem().Underlying().(*types.Struct); ok {
			return st.Field(fa.Field).Name()
		}
	}
	return "?"
}
