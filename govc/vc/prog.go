package vc

import (
	"fmt"
	"go/ast"
	"go/token"
	"go/types"
	"sort"
	"strings"

	"golang.org/x/tools/go/packages"
	"golang.org/x/tools/go/ssa"
	"golang.org/x/tools/go/ssa/ssautil"
)

// Prog is the loaded repository.
type Prog struct {
	Fset      *token.FileSet
	SSA       *ssa.Program
	Pkgs      map[string]*packages.Package
	Contracts *ContractSet
	Sizes     types.Sizes
	Root      string
	Module    string
}

func sortStrings(s []string) { sort.Strings(s) }

// Load loads the given package patterns of the repository at root (with build tag verif).
func Load(root, module string, patterns []string) (*Prog, error) {
	cfg := &packages.Config{Mode: packages.LoadAllSyntax, Dir: root, BuildFlags: []string{"-tags=verif"},
		Env: nil}
	pkgs, err := packages.Load(cfg, patterns...)
	if err != nil {
		return nil, err
	}
	var errs []string
	packages.Visit(pkgs, nil, func(p *packages.Package) {
		for _, e := range p.Errors {
			errs = append(errs, e.Error())
		}
	})
	if len(errs) > 0 {
		return nil, fmt.Errorf("package errors:\n%s", strings.Join(errs, "\n"))
	}
	prog, _ := ssautil.AllPackages(pkgs, ssa.NaiveForm|ssa.GlobalDebug)
	prog.Build()
	p := &Prog{Fset: prog.Fset, SSA: prog, Pkgs: map[string]*packages.Package{}, Root: root, Module: module,
		Sizes: types.SizesFor("gc", "amd64")}
	packages.Visit(pkgs, nil, func(pk *packages.Package) { p.Pkgs[pk.PkgPath] = pk })
	cs, err := LoadContracts(root, module)
	if err != nil {
		return nil, err
	}
	p.Contracts = cs
	err = cs.Resolve(func(from, qual string) (string, error) {
		if _, ok := p.Pkgs[qual]; ok {
			return qual, nil
		}
		fp := p.Pkgs[from]
		if fp == nil {
			return "", fmt.Errorf("package %s is not loaded (contract file present)", from)
		}
		if q := p.findPkg(fp.Types, qual); q != nil {
			return q.Path(), nil
		}
		return "", fmt.Errorf("cannot resolve package qualifier %q from %s", qual, from)
	})
	if err != nil {
		return nil, err
	}
	p.synthesizeAutos()
	p.fanOutInterfaces()
	return p, nil
}

// fanOutInterfaces copies every `interface` contract onto the concrete methods of all types of
// the module that implement the interface (behavioural subtyping: each implementer is verified
// against the contract that callers use at invoke sites).
func (p *Prog) fanOutInterfaces() {
	var ifaceCons []*Contract
	for _, c := range p.Contracts.ByKey {
		if c.Iface {
			ifaceCons = append(ifaceCons, c)
		}
	}
	sort.Slice(ifaceCons, func(i, j int) bool { return ifaceCons[i].Key < ifaceCons[j].Key })
	for _, c := range ifaceCons {
		// key: (path.Type).Method
		k := c.Key
		i := strings.LastIndex(k, ").")
		if !strings.HasPrefix(k, "(") || i < 0 {
			continue
		}
		tn, mname := k[1:i], k[i+2:]
		j := strings.LastIndex(tn, ".")
		if j < 0 {
			continue
		}
		ipkg := p.Pkgs[tn[:j]]
		if ipkg == nil {
			continue
		}
		obj, ok := ipkg.Types.Scope().Lookup(tn[j+1:]).(*types.TypeName)
		if !ok {
			continue
		}
		iface, ok := obj.Type().Underlying().(*types.Interface)
		if !ok {
			continue
		}
		var paths []string
		for path := range p.Pkgs {
			if strings.HasPrefix(path, p.Module) {
				paths = append(paths, path)
			}
		}
		sort.Strings(paths)
		for _, path := range paths {
			pk := p.Pkgs[path]
			sc := pk.Types.Scope()
			for _, name := range sc.Names() {
				t, ok := sc.Lookup(name).(*types.TypeName)
				if !ok || t.IsAlias() {
					continue
				}
				if _, isI := t.Type().Underlying().(*types.Interface); isI {
					continue
				}
				var recvT types.Type
				switch {
				case types.Implements(t.Type(), iface):
					recvT = t.Type()
				case types.Implements(types.NewPointer(t.Type()), iface):
					recvT = types.NewPointer(t.Type())
				default:
					continue
				}
				sel := types.NewMethodSet(recvT).Lookup(pk.Types, mname)
				if sel == nil {
					continue
				}
				fn := p.SSA.MethodValue(sel)
				if fn == nil || fn.Synthetic != "" || fn.Blocks == nil {
					continue // promoted through embedding: the embedded type's own method is checked
				}
				key := fn.String()
				if _, exists := p.Contracts.ByKey[key]; exists {
					continue
				}
				d := *c
				d.Key = key
				d.Iface = false
				d.Assumed = false
				d.Derived = c.Key
				d.Used = false
				d.Claims = map[string]bool{}
				for kk, v := range c.Claims {
					d.Claims[kk] = v
				}
				p.Contracts.ByKey[key] = &d
			}
		}
	}
}

func callsAppend(fn *ssa.Function, depth int) bool {
	for _, b := range fn.Blocks {
		for _, in := range b.Instrs {
			var cc *ssa.CallCommon
			switch i := in.(type) {
			case *ssa.Call:
				cc = &i.Call
			case *ssa.Defer:
				cc = &i.Call
			}
			if cc != nil {
				if f := cc.StaticCallee(); f != nil && f.String() == historyAppendKey {
					return true
				}
			}
		}
	}
	return false
}

// synthesizeAutos creates thin contracts (`claims inverse`) for every function of a package
// that contains a History.Append call, unless the function already has a contract.
func (p *Prog) synthesizeAutos() {
	for _, a := range p.Contracts.Autos {
		skip := map[string]bool{}
		for _, s := range a.Skip {
			skip[s] = true
		}
		for fn := range ssautil.AllFunctions(p.SSA) {
			if fn.Pkg == nil || fn.Pkg.Pkg.Path() != a.PkgPath || fn.Parent() != nil || fn.Blocks == nil || fn.Synthetic != "" {
				continue
			}
			if a.Kind == "decoders" {
				if !strings.HasPrefix(fn.Name(), "Deserialize") {
					continue
				}
			} else if a.Kind == "loopvars" {
				if !strings.HasPrefix(strings.ToLower(fn.Name()), "deserialize") {
					continue
				}
			} else if !callsAppend(fn, 0) {
				// Append calls may sit in function literals that the function calls directly
				found := false
				for _, af := range fn.AnonFuncs {
					if callsAppend(af, 1) {
						found = true
					}
				}
				if !found {
					continue
				}
			}
			key := fn.String()
			if skip[fn.Name()] {
				continue
			}
			if c, ok := p.Contracts.ByKey[key]; ok {
				for _, cl := range a.Claims {
					c.Claims[cl] = true
					if c.ClaimProps == nil {
						c.ClaimProps = map[string][]string{}
					}
					c.ClaimProps[cl] = appendMissing(c.ClaimProps[cl], a.Props)
				}
				c.Props = appendMissing(c.Props, a.Props)
				continue
			}
			c := &Contract{Key: key, PkgPath: a.PkgPath, Header: "auto " + shortKey(key), Loops: map[int][]*Clause{}, Closures: map[int]*Contract{},
				Claims: map[string]bool{}, Inline: map[string]bool{}, File: a.File, Line: a.Line, Props: append([]string{}, a.Props...), Auto: true}
			for _, cl := range a.Claims {
				c.Claims[cl] = true
			}
			for _, in := range a.Inline {
				c.Inline[in] = true
			}
			if a.Kind == "loopvars" {
				// `skip Type.Func.var`: a value that is read from the stream and deliberately dropped (redundant on the wire)
				for _, sk := range a.Skip {
					if i := strings.LastIndex(sk, "."); i > 0 && strings.Contains(strings.NewReplacer(")", "", "(", "", "*", "").Replace(key), sk[:i]) {
						c.Claims["decoded-ok:"+sk[i+1:]] = true
					}
				}
			}
			seen := map[string]int{}
			for i, prm := range fn.Params {
				n := prm.Name()
				if n == "" || n == "_" {
					n = fmt.Sprintf("p%d", i)
				}
				seen[n]++
				if seen[n] > 1 {
					n = fmt.Sprintf("%s_%d", n, i)
				}
				c.Params = append(c.Params, n)
			}
			p.Contracts.ByKey[key] = c
		}
	}
}

func appendMissing(dst, src []string) []string {
	for _, s := range src {
		found := false
		for _, d := range dst {
			if d == s {
				found = true
			}
		}
		if !found {
			dst = append(dst, s)
		}
	}
	return dst
}

func (p *Prog) typesPkg(path string) *types.Package {
	if pk, ok := p.Pkgs[path]; ok {
		return pk.Types
	}
	return nil
}

// findPkg resolves a package name or alias as seen from package `from`.
func (p *Prog) findPkg(from *types.Package, name string) *types.Package {
	if from != nil {
		// aliases used in the files of `from`
		if pk := p.Pkgs[from.Path()]; pk != nil {
			for _, f := range pk.Syntax {
				for _, imp := range f.Imports {
					path := strings.Trim(imp.Path.Value, "\"")
					local := ""
					if imp.Name != nil {
						local = imp.Name.Name
					} else if q, ok := p.Pkgs[path]; ok {
						local = q.Name
					}
					if local == name {
						if q, ok := p.Pkgs[path]; ok {
							return q.Types
						}
					}
				}
			}
		}
		if from.Name() == name {
			return from
		}
	}
	// unique package with that name among all loaded packages
	var found *types.Package
	n := 0
	for _, pk := range p.Pkgs {
		if pk.Name == name || pk.PkgPath == name {
			found = pk.Types
			n++
		}
	}
	if n == 1 {
		return found
	}
	// prefer a package of the module
	if n > 1 {
		var cands []*types.Package
		for _, pk := range p.Pkgs {
			if pk.Name == name && strings.HasPrefix(pk.PkgPath, p.Module) {
				cands = append(cands, pk.Types)
			}
		}
		if len(cands) == 1 {
			return cands[0]
		}
	}
	return nil
}

// FuncByKey finds the ssa function with the given String().
func (p *Prog) FuncByKey(key string) *ssa.Function {
	// determine the package path and whether it is a method
	for fn := range ssautil.AllFunctions(p.SSA) {
		if fn.String() == key {
			return fn
		}
	}
	return nil
}

// exprIndex maps token positions of interesting operators to their AST nodes.
func exprIndex(fn *ssa.Function) map[token.Pos]ast.Node {
	m := map[token.Pos]ast.Node{}
	syn := fn.Syntax()
	if syn == nil {
		return m
	}
	ast.Inspect(syn, func(n ast.Node) bool {
		switch e := n.(type) {
		case *ast.IndexExpr:
			m[e.Lbrack] = e
		case *ast.SliceExpr:
			m[e.Lbrack] = e
		case *ast.BinaryExpr:
			m[e.OpPos] = e
		case *ast.CallExpr:
			m[e.Lparen] = e
		case *ast.TypeAssertExpr:
			m[e.Lparen] = e
		case *ast.StarExpr:
			m[e.Star] = e
		case *ast.SelectorExpr:
			m[e.Sel.Pos()] = e
		case *ast.UnaryExpr:
			m[e.OpPos] = e
		}
		return true
	})
	return m
}

// findPkg resolves a package qualifier as seen from the file that declares the function
// under proof (import aliases are per file), falling back to the package-wide lookup.
func (x *exec) findPkg(from *types.Package, name string) *types.Package {
	if x.file != nil {
		for _, imp := range x.file.Imports {
			path := strings.Trim(imp.Path.Value, "\"")
			q, ok := x.p.Pkgs[path]
			if !ok {
				continue
			}
			local := q.Name
			if imp.Name != nil {
				local = imp.Name.Name
			}
			if local == name {
				return q.Types
			}
		}
	}
	return x.p.findPkg(from, name)
}

// fileOf finds the syntax file containing a position.
func (p *Prog) fileOf(pkgPath string, pos token.Pos) *ast.File {
	pk := p.Pkgs[pkgPath]
	if pk == nil {
		return nil
	}
	for _, f := range pk.Syntax {
		if f.Pos() <= pos && pos <= f.End() {
			return f
		}
	}
	return nil
}
