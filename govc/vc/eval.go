package vc

import (
	"fmt"
	"go/ast"
	"go/constant"
	"go/parser"
	"go/token"
	"go/types"
	"math/big"
	"strings"

	"golang.org/x/tools/go/ssa"
)

// Env is the evaluation environment of a spec expression.
type Env struct {
	x    *exec
	vars map[string]*Val
	st   *State
	old  *State
	pkg  *types.Package
	cell func(name string) *Val // source-level locals (loop invariants)
	fnPkg string
	seq   *rangeVal
	visited string // ghost set of keys visited by the enclosing range-over-map loop
}

func (e *Env) with(name string, v *Val) *Env {
	n := *e
	n.vars = map[string]*Val{}
	for k, val := range e.vars {
		n.vars[k] = val
	}
	n.vars[name] = v
	return &n
}

var untypedNil = types.Typ[types.UntypedNil]

func (x *exec) evalBool(e Expr, env *Env) string {
	v := x.eval(e, env, types.Typ[types.Bool])
	if v.Typ == nil || !isBoolType(v.Typ) {
		fail("spec: boolean expected in %s", ExprString(e))
	}
	return x.term(v)
}

func isBoolType(t types.Type) bool {
	b, ok := t.Underlying().(*types.Basic)
	return ok && b.Info()&types.IsBoolean != 0
}

func (x *exec) eval(e Expr, env *Env, hint types.Type) *Val {
	saved := x.noAssume
	x.noAssume = true
	defer func() { x.noAssume = saved }()
	return x.ev(e, env, hint)
}

func (x *exec) ev(e Expr, env *Env, hint types.Type) *Val {
	switch n := e.(type) {
	case *ELit:
		switch n.Kind {
		case "bool":
			return x.mkVal(n.Val, types.Typ[types.Bool])
		case "nil":
			if hint != nil && !isInt(hint) && !isBoolType(hint) {
				return x.mkVal(x.c.Zero(hint), hint)
			}
			return &Val{T: "0", Typ: untypedNil}
		case "string":
			return x.mkVal(x.c.StrLit(n.Val), types.Typ[types.String])
		case "char":
			t := hint
			if t == nil || !isInt(t) {
				t = types.Typ[types.Int32]
			}
			bits, _ := x.c.bits(t)
			r := []rune(n.Val)
			if len(r) != 1 {
				fail("spec: bad char literal %q", n.Val)
			}
			return x.mkVal(x.c.IntLit(big.NewInt(int64(r[0])), bits), t)
		case "float":
			f, _, err := big.ParseFloat(n.Val, 10, 53, big.ToNearestEven)
			if err != nil {
				fail("spec: bad float literal %q", n.Val)
			}
			fv, _ := f.Float64()
			return x.mkVal(fpLit(fv), types.Typ[types.Float64])
		case "int":
			v, ok := new(big.Int).SetString(n.Val, 0)
			if !ok {
				fail("spec: bad integer %q", n.Val)
			}
			t := hint
			if t != nil && isFloat(t) {
				f, _ := new(big.Float).SetInt(v).Float64()
				return x.mkVal(fpLit(f), t)
			}
			if t == nil || !isInt(t) {
				t = types.Typ[types.Int]
			}
			bits, _ := x.c.bits(t)
			return x.mkVal(x.c.IntLit(v, bits), t)
		}
	case *EId:
		if v, ok := env.vars[n.Name]; ok {
			return v
		}
		if n.Name == "$sigma" {
			// the abstract client state that stored change closures transform (C20)
			return x.mkVal(x.sigmaGet(env.st), types.Typ[types.Int])
		}
		if env.cell != nil {
			if v := env.cell(n.Name); v != nil {
				return v
			}
		}
		if env.pkg != nil {
			if obj := env.pkg.Scope().Lookup(n.Name); obj != nil {
				return x.objVal(obj, env, hint)
			}
		}
		fail("spec: unknown identifier %q", n.Name)
	case *ESel:
		// package-qualified object?
		if id, ok := n.X.(*EId); ok {
			if _, isVar := env.vars[id.Name]; !isVar && (env.cell == nil || env.cell(id.Name) == nil) {
				if p := x.findPkg(env.pkg, id.Name); p != nil {
					obj := p.Scope().Lookup(n.Name)
					if obj == nil {
						fail("spec: %s.%s not found", id.Name, n.Name)
					}
					return x.objVal(obj, env, hint)
				}
			}
		}
		xv := x.ev(n.X, env, nil)
		return x.selField(xv, n.Name, env)
	case *EIdx:
		xv := x.ev(n.X, env, nil)
		switch u := xv.Typ.Underlying().(type) {
		case *types.Slice:
			iv := x.ev(n.I, env, types.Typ[types.Int])
			idx := x.c.Convert(x.term(iv), iv.Typ, types.Typ[types.Int])
			if xv.Seq != nil {
				return x.mkVal(Sel(xv.Seq.arr, x.c.EIdx(xv.Seq.off, idx)), u.Elem())
			}
			return x.load(env.st, &Loc{K: LElem, Slice: x.term(xv), Idx: idx, T: u.Elem()}, u.Elem())
		case *types.Array:
			iv := x.ev(n.I, env, types.Typ[types.Int])
			idx := x.c.Convert(x.term(iv), iv.Typ, types.Typ[types.Int])
			return x.mkVal(x.arrayGet(x.term(xv), idx, xv.Typ), u.Elem())
		case *types.Pointer:
			if at, ok := u.Elem().Underlying().(*types.Array); ok {
				iv := x.ev(n.I, env, types.Typ[types.Int])
				idx := x.c.Convert(x.term(iv), iv.Typ, types.Typ[types.Int])
				av := x.load(env.st, xv.L, u.Elem())
				return x.mkVal(x.arrayGet(x.term(av), idx, u.Elem()), at.Elem())
			}
		case *types.Map:
			kv := x.ev(n.I, env, u.Key())
			val, _ := x.mapGet(env.st, x.term(xv), x.term(kv), u)
			return x.mkVal(val, u.Elem())
		case *types.Basic:
			if isStringType(xv.Typ) {
				iv := x.ev(n.I, env, types.Typ[types.Int])
				idx := x.c.Convert(x.term(iv), iv.Typ, types.Typ[types.Int])
				x.c.Fun("str-at", []string{"Str", x.c.I()}, x.c.SortOf(types.Typ[types.Uint8]))
				return x.mkVal(App("str-at", x.term(xv), idx), types.Typ[types.Uint8])
			}
		}
		fail("spec: cannot index %s (type %s)", ExprString(n.X), xv.Typ)
	case *ESlice:
		xv := x.ev(n.X, env, nil)
		if b, ok := xv.Typ.Underlying().(*types.Basic); ok && b.Info()&types.IsString != 0 {
			st := x.term(xv)
			lo, hi := x.c.ILit(0), App("str-len", st)
			if n.Lo != nil {
				v := x.ev(n.Lo, env, types.Typ[types.Int])
				lo = x.c.Convert(x.term(v), v.Typ, types.Typ[types.Int])
			}
			if n.Hi != nil {
				v := x.ev(n.Hi, env, types.Typ[types.Int])
				hi = x.c.Convert(x.term(v), v.Typ, types.Typ[types.Int])
			}
			x.c.Fun("str-sub", []string{"Str", x.c.I(), x.c.I()}, "Str")
			return x.mkVal(App("str-sub", st, lo, hi), xv.Typ)
		}
		if nb, ok := isByteArray(xv.Typ); ok {
			// a[lo:hi] of a byte-array value: the same snapshot store the executor builds for it
			lo, hi := x.c.ILit(0), x.c.ILit(nb)
			if n.Lo != nil {
				v := x.ev(n.Lo, env, types.Typ[types.Int])
				lo = x.c.Convert(x.term(v), v.Typ, types.Typ[types.Int])
			}
			if n.Hi != nil {
				v := x.ev(n.Hi, env, types.Typ[types.Int])
				hi = x.c.Convert(x.term(v), v.Typ, types.Typ[types.Int])
			}
			elem := xv.Typ.Underlying().(*types.Array).Elem()
			return &Val{Typ: types.NewSlice(elem), Seq: &seqView{arr: x.bytesOf(x.term(xv), xv.Typ), off: lo, ln: x.c.ISub(hi, lo)}}
		}
		if !isSliceType(xv.Typ) {
			fail("spec: slice expression on %s", xv.Typ)
		}
		if xv.Seq != nil {
			lo, hi := x.c.ILit(0), xv.Seq.ln
			if n.Lo != nil {
				v := x.ev(n.Lo, env, types.Typ[types.Int])
				lo = x.c.Convert(x.term(v), v.Typ, types.Typ[types.Int])
			}
			if n.Hi != nil {
				v := x.ev(n.Hi, env, types.Typ[types.Int])
				hi = x.c.Convert(x.term(v), v.Typ, types.Typ[types.Int])
			}
			return &Val{Typ: xv.Typ, Seq: &seqView{arr: xv.Seq.arr, off: x.c.IAdd(xv.Seq.off, lo), ln: x.c.ISub(hi, lo)}}
		}
		sl := x.term(xv)
		lo, hi := x.c.ILit(0), App("s-len", sl)
		if n.Lo != nil {
			v := x.ev(n.Lo, env, types.Typ[types.Int])
			lo = x.c.Convert(x.term(v), v.Typ, types.Typ[types.Int])
		}
		if n.Hi != nil {
			v := x.ev(n.Hi, env, types.Typ[types.Int])
			hi = x.c.Convert(x.term(v), v.Typ, types.Typ[types.Int])
		}
		return x.mkVal(fmt.Sprintf("(mk-slice %s %s %s %s)", App("s-ref", sl), x.c.IAdd(App("s-off", sl), lo), x.c.ISub(hi, lo), x.c.ISub(App("s-cap", sl), lo)), xv.Typ)
	case *EUn:
		switch n.Op {
		case "*":
			v := x.ev(n.X, env, nil)
			p, ok := v.Typ.Underlying().(*types.Pointer)
			if !ok || v.L == nil {
				fail("spec: cannot dereference %s", ExprString(n.X))
			}
			return x.load(env.st, v.L, p.Elem())
		case "!":
			return x.mkVal(Not(x.evalB(n.X, env)), types.Typ[types.Bool])
		case "-":
			v := x.ev(n.X, env, hint)
			if isFloat(v.Typ) {
				return x.mkVal("(fp.neg "+x.term(v)+")", v.Typ)
			}
			return x.mkVal(x.specArith("-", x.c.Zero(v.Typ), x.term(v), v.Typ), v.Typ)
		case "^":
			v := x.ev(n.X, env, hint)
			if x.c.Mode == ModeBV {
				return x.mkVal("(bvnot "+x.term(v)+")", v.Typ)
			}
		}
		fail("spec: unary %s", n.Op)
	case *EBin:
		return x.evBin(n, env, hint)
	case *ECond:
		c := x.evalB(n.C, env)
		a := x.ev(n.A, env, hint)
		b := x.ev(n.B, env, a.Typ)
		return x.mkVal(Ite(c, x.term(a), x.term(b)), a.Typ)
	case *EQuant:
		var binds []string
		var guards []string
		ne := env
		for _, v := range n.Vars {
			t := x.p.resolveType(v[1], env.pkg)
			name := x.c.Fresh("q." + v[0])
			binds = append(binds, fmt.Sprintf("(%s %s)", name, x.c.SortOf(t)))
			bv := x.mkVal(name, t)
			ne = ne.with(v[0], bv)
			if g := x.wf(name, t); g != "true" {
				guards = append(guards, g)
			}
		}
		x.c.NoLet++
		body := x.evalB(n.Body, ne)
		x.c.NoLet--
		var r string
		if n.Forall {
			r = fmt.Sprintf("(forall (%s) %s)", strings.Join(binds, " "), Imp(And(guards...), body))
		} else {
			r = fmt.Sprintf("(exists (%s) %s)", strings.Join(binds, " "), And(append(guards, body)...))
		}
		return x.mkVal(r, types.Typ[types.Bool])
	case *ECall:
		return x.evCall(n, env, hint)
	}
	fail("spec: cannot evaluate %s", ExprString(e))
	return nil
}

func (x *exec) evalB(e Expr, env *Env) string {
	v := x.ev(e, env, types.Typ[types.Bool])
	if v.Typ == nil || !isBoolType(v.Typ) {
		fail("spec: boolean expected in %s", ExprString(e))
	}
	return x.term(v)
}

func (x *exec) objVal(obj types.Object, env *Env, hint types.Type) *Val {
	switch o := obj.(type) {
	case *types.Const:
		t := o.Type()
		if b, ok := t.(*types.Basic); ok && b.Info()&types.IsUntyped != 0 {
			if hint != nil && (isInt(hint) || isFloat(hint)) {
				t = hint
			} else {
				t = types.Default(t)
			}
		}
		if isFloat(t) {
			return x.mkVal(x.c.ConstVal(constant.ToFloat(o.Val()), t), t)
		}
		return x.mkVal(x.c.ConstVal(o.Val(), t), t)
	case *types.Var:
		if pkg := x.p.SSA.Package(o.Pkg()); pkg != nil {
			if g, ok := pkg.Members[o.Name()].(*ssa.Global); ok {
				return x.load(env.st, &Loc{K: LGlobal, Global: g}, o.Type())
			}
		}
	}
	fail("spec: cannot use %s in a specification", obj)
	return nil
}

func (x *exec) selField(xv *Val, name string, env *Env) *Val {
	t := xv.Typ
	if t == nil {
		fail("spec: selector .%s on untyped value", name)
	}
	obj, index, _ := types.LookupFieldOrMethod(t, true, nil, name)
	if obj == nil {
		// unexported field of another package: search by name with that package
		if st := structUnder(t); st != nil {
			for i := 0; i < st.NumFields(); i++ {
				if st.Field(i).Name() == name {
					obj, index = st.Field(i), []int{i}
				}
			}
		}
		if obj == nil {
			obj, index, _ = types.LookupFieldOrMethod(t, true, pkgOfType(t), name)
		}
	}
	fld, ok := obj.(*types.Var)
	if !ok || !fld.IsField() {
		fail("spec: %s has no field %s", t, name)
	}
	cur := xv
	for k, fi := range index {
		last := k == len(index)-1
		ct := cur.Typ
		if p, ok := ct.Underlying().(*types.Pointer); ok {
			st := p.Elem()
			if cur.L == nil {
				fail("spec: field of pointer without location")
			}
			l := x.fieldLoc(cur.L, st, fi)
			ft := x.c.structOf(st).ftypes[fi]
			if l.K == LObj && !last {
				// embedded struct by value: continue through a pointer-like location
				cur = &Val{Typ: types.NewPointer(ft), L: l, T: l.Ref}
				continue
			}
			cur = x.load(env.st, l, ft)
			continue
		}
		si := x.c.structOf(ct)
		cur = x.mkVal(App(si.fields[fi], x.term(cur)), si.ftypes[fi])
	}
	return cur
}

func structUnder(t types.Type) *types.Struct {
	if p, ok := t.Underlying().(*types.Pointer); ok {
		t = p.Elem()
	}
	st, _ := t.Underlying().(*types.Struct)
	return st
}

func pkgOfType(t types.Type) *types.Package {
	if p, ok := t.Underlying().(*types.Pointer); ok {
		t = p.Elem()
	}
	if n, ok := t.(*types.Named); ok && n.Obj() != nil {
		return n.Obj().Pkg()
	}
	return nil
}

func (x *exec) evBin(n *EBin, env *Env, hint types.Type) *Val {
	boolT := types.Typ[types.Bool]
	switch n.Op {
	case "&&":
		return x.mkVal(And(x.evalB(n.X, env), x.evalB(n.Y, env)), boolT)
	case "||":
		return x.mkVal(Or(x.evalB(n.X, env), x.evalB(n.Y, env)), boolT)
	case "==>":
		return x.mkVal(Imp(x.evalB(n.X, env), x.evalB(n.Y, env)), boolT)
	case "<==>":
		return x.mkVal(Eq(x.evalB(n.X, env), x.evalB(n.Y, env)), boolT)
	case "in":
		if id, ok := n.Y.(*EId); ok && id.Name == "$visited" {
			// k in $visited: membership in the ghost set of keys the enclosing range-over-map loop has visited
			if env.visited == "" || env.seq == nil {
				fail("spec: $visited is only available in invariants of a range-over-map loop")
			}
			kv := x.ev(n.X, env, env.seq.m.Key())
			return x.mkVal(Sel(env.visited, x.term(kv)), boolT)
		}
		mv := x.ev(n.Y, env, nil)
		m, ok := mv.Typ.Underlying().(*types.Map)
		if !ok {
			fail("spec: `in` needs a map, got %s", mv.Typ)
		}
		kv := x.ev(n.X, env, m.Key())
		_, okT := x.mapGet(env.st, x.term(mv), x.term(kv), m)
		return x.mkVal(okT, boolT)
	}
	// operands: evaluate the non-literal side first for the type hint
	var a, b *Val
	_, xl := n.X.(*ELit)
	if n.Op == "<<" || n.Op == ">>" {
		a = x.ev(n.X, env, hint)
		b = x.ev(n.Y, env, types.Typ[types.Uint])
	} else if xl {
		b = x.ev(n.Y, env, opHint(n.Op, hint))
		a = x.ev(n.X, env, b.Typ)
	} else {
		a = x.ev(n.X, env, opHint(n.Op, hint))
		h := a.Typ
		if n.Op == "<<" || n.Op == ">>" {
			h = types.Typ[types.Uint]
		}
		b = x.ev(n.Y, env, h)
	}
	if a.Typ == untypedNil && b.Typ != untypedNil {
		a = x.mkVal(x.c.Zero(b.Typ), b.Typ)
	}
	if b.Typ == untypedNil && a.Typ != untypedNil {
		b = x.mkVal(x.c.Zero(a.Typ), a.Typ)
	}
	t := a.Typ
	switch n.Op {
	case "==", "!=":
		var e string
		switch {
		case isFloat(t):
			e = App("fp.eq", x.term(a), x.term(b))
		case isIfaceType(t) && x.term(b) == "(mk-iface 0 0)":
			e = Eq(App("i-tag", x.term(a)), "0")
		case isSliceType(t) && x.term(b) == x.c.Zero(t):
			e = Eq(App("s-ref", x.term(a)), "0")
		default:
			if x.c.SortOf(a.Typ) != x.c.SortOf(b.Typ) {
				fail("spec: comparing %s with %s in %s", a.Typ, b.Typ, ExprString(n))
			}
			e = Eq(x.term(a), x.term(b))
		}
		if n.Op == "!=" {
			e = Not(e)
		}
		return x.mkVal(e, boolT)
	case "<", "<=", ">", ">=":
		if isFloat(t) {
			m := map[string]string{"<": "fp.lt", "<=": "fp.leq", ">": "fp.gt", ">=": "fp.geq"}
			return x.mkVal(App(m[n.Op], x.term(a), x.term(b)), boolT)
		}
		if !isInt(t) || !isInt(b.Typ) {
			fail("spec: ordering on %s in %s", t, ExprString(n))
		}
		if x.c.SortOf(a.Typ) != x.c.SortOf(b.Typ) {
			fail("spec: comparing %s with %s in %s", a.Typ, b.Typ, ExprString(n))
		}
		return x.mkVal(x.c.Cmp(n.Op, x.term(a), x.term(b), t), boolT)
	}
	if isFloat(t) {
		m := map[string]string{"+": "fp.add RNE", "-": "fp.sub RNE", "*": "fp.mul RNE", "/": "fp.div RNE"}
		f, ok := m[n.Op]
		if !ok {
			fail("spec: float op %s", n.Op)
		}
		return x.mkVal(App(f, x.term(a), x.term(b)), t)
	}
	if isStringType(t) && n.Op == "+" {
		// string concatenation: the same uninterpreted function the executor uses
		x.c.Fun("str-cat", []string{"Str", "Str"}, "Str")
		return x.mkVal(App("str-cat", x.term(a), x.term(b)), t)
	}
	if !isInt(t) {
		fail("spec: operator %s on %s in %s", n.Op, t, ExprString(n))
	}
	if n.Op == "<<" || n.Op == ">>" {
		return x.mkVal(x.specShift(n.Op, a, b), t)
	}
	if x.c.SortOf(a.Typ) != x.c.SortOf(b.Typ) {
		fail("spec: mixing %s and %s in %s", a.Typ, b.Typ, ExprString(n))
	}
	return x.mkVal(x.specArith(n.Op, x.term(a), x.term(b), t), t)
}

func opHint(op string, hint types.Type) types.Type {
	switch op {
	case "==", "!=", "<", "<=", ">", ">=":
		return nil
	}
	return hint
}

// specArith: arithmetic in specifications. BV mode: Go wrap-around semantics.
// Int mode: exact mathematical integers.
func (x *exec) specArith(op, a, b string, t types.Type) string {
	_, signed := x.c.bits(t)
	if x.c.Mode == ModeInt {
		switch op {
		case "+", "-", "*":
			return App(op, a, b)
		case "/":
			x.intHelpers()
			return App("tdiv", a, b)
		case "%":
			x.intHelpers()
			return App("tmod", a, b)
		case "&":
			if k, ok := maskBits(b); ok {
				return fmt.Sprintf("(mod %s %s)", a, new(big.Int).Lsh(big.NewInt(1), uint(k)).String())
			}
			if m, ok := andRun(a, b, false); ok {
				return m
			}
		}
		fail("spec: operator %s unsupported in arith int", op)
	}
	m := map[string]string{"+": "bvadd", "-": "bvsub", "*": "bvmul", "&": "bvand", "|": "bvor", "^": "bvxor"}
	switch op {
	case "/":
		if signed {
			return App("bvsdiv", a, b)
		}
		return App("bvudiv", a, b)
	case "%":
		if signed {
			return App("bvsrem", a, b)
		}
		return App("bvurem", a, b)
	case "&^":
		return App("bvand", a, App("bvnot", b))
	}
	f, ok := m[op]
	if !ok {
		fail("spec: operator %s", op)
	}
	return App(f, a, b)
}

func (x *exec) specShift(op string, a, b *Val) string {
	if x.c.Mode == ModeInt {
		k, ok := new(big.Int).SetString(x.term(b), 10)
		if !ok {
			// exact (mathematical) shift by a count in 0..MathBits-1
			x.pow2BigTable()
			if op == "<<" {
				return fmt.Sprintf("(* %s (pow2!big %s))", x.term(a), x.term(b))
			}
			return fmt.Sprintf("(div %s (pow2!big %s))", x.term(a), x.term(b))
		}
		p := new(big.Int).Lsh(big.NewInt(1), uint(k.Int64())).String()
		if op == "<<" {
			return fmt.Sprintf("(* %s %s)", x.term(a), p)
		}
		return fmt.Sprintf("(div %s %s)", x.term(a), p)
	}
	ab, asg := x.c.bits(a.Typ)
	cnt := x.c.Convert(x.term(b), b.Typ, a.Typ)
	bb, _ := x.c.bits(b.Typ)
	big := "false"
	if bb > ab {
		big = fmt.Sprintf("(bvuge %s %s)", x.term(b), bvLitInt(int64(ab), bb))
	}
	switch {
	case op == "<<":
		return Ite(big, bvLitInt(0, ab), App("bvshl", x.term(a), cnt))
	case asg:
		return Ite(big, App("bvashr", x.term(a), bvLitInt(int64(ab-1), ab)), App("bvashr", x.term(a), cnt))
	}
	return Ite(big, bvLitInt(0, ab), App("bvlshr", x.term(a), cnt))
}

func (x *exec) evCall(n *ECall, env *Env, hint types.Type) *Val {
	if id, ok := n.Fun.(*EId); ok {
		switch id.Name {
		case "len", "cap":
			v := x.ev(n.Args[0], env, nil)
			intT := types.Typ[types.Int]
			switch u := v.Typ.Underlying().(type) {
			case *types.Slice:
				if v.Seq != nil {
					return x.mkVal(v.Seq.ln, intT)
				}
				if id.Name == "len" {
					return x.mkVal(App("s-len", x.term(v)), intT)
				}
				return x.mkVal(App("s-cap", x.term(v)), intT)
			case *types.Basic:
				return x.mkVal(App("str-len", x.term(v)), intT)
			case *types.Array:
				return x.mkVal(x.c.ILit(u.Len()), intT)
			case *types.Map:
				_, _, card, _, _ := x.mapParts(env.st, u, x.term(v))
				return x.mkVal(Ite(Eq(x.term(v), "0"), x.c.ILit(0), card), intT)
			case *types.Pointer:
				if at, ok := u.Elem().Underlying().(*types.Array); ok {
					return x.mkVal(x.c.ILit(at.Len()), intT)
				}
			}
			fail("spec: len of %s", v.Typ)
		case "old":
			if env.old == nil {
				fail("spec: old() used where no pre-state exists")
			}
			ne := *env
			ne.st = env.old
			return x.ev(n.Args[0], &ne, hint)
		case "ret0", "ret1", "ret2", "ret3":
			// component of a multi-result pure call
			v := x.ev(n.Args[0], env, nil)
			k := int(id.Name[3] - '0')
			if k >= len(v.Tup) {
				fail("spec: %s of a %d-tuple", id.Name, len(v.Tup))
			}
			return v.Tup[k]
		case "csprng":
			// csprng(b): the buffer / key object b was filled by the operating system's secure random source
			v := x.ev(n.Args[0], env, nil)
			return x.mkVal(Sel(x.h.get(env.st, csprngArr, "(Array Int Bool)"), x.refOf(v)), types.Typ[types.Bool])
		case "app":
			// app(f, s): the client state after calling the stored closure f in client state s
			if len(n.Args) != 2 {
				fail("spec: app(f, s)")
			}
			fv := x.ev(n.Args[0], env, nil)
			sv := x.ev(n.Args[1], env, types.Typ[types.Int])
			x.c.Fun("sigma!app", []string{"Int", x.sigmaSort()}, x.sigmaSort())
			return x.mkVal(App("sigma!app", x.term(fv), x.term(sv)), types.Typ[types.Int])
		case "first":
			// first(v): the first value assigned to the local v (only meaningful as the subject of a case split,
			// where any term is sound: the cases are exhaustive whatever the term denotes)
			if id2, ok := n.Args[0].(*EId); ok {
				if v := x.firstStore[id2.Name]; v != nil {
					return v
				}
			}
			fail("spec: first(%s): no assignment to such a local seen", ExprString(n.Args[0]))
		case "bigval":
			// bigval(p): the mathematical integer held by the *big.Int p (ghost field, arith int only)
			v := x.ev(n.Args[0], env, nil)
			return x.mkVal(Sel(x.h.get(env.st, bigvalArr, x.bigvalSort()), x.term(v)), MathInt)
		case "setsum":
			return x.setSum(n, env)
		case "wrapu32", "wrapi64", "wrapu64", "wrapi32":
			// explicit machine wrap-around in arith int specifications (identity in arith bv)
			tm := map[string]types.Type{"wrapu32": types.Typ[types.Uint32], "wrapi64": types.Typ[types.Int64], "wrapu64": types.Typ[types.Uint64], "wrapi32": types.Typ[types.Int32]}
			t := tm[id.Name]
			v := x.ev(n.Args[0], env, t)
			if x.c.Mode == ModeBV {
				return v
			}
			return x.mkVal(x.wrapInt(x.term(v), t), t)
		case "$key":
			// $key(j): j-th key of the ghost iteration sequence of the map being ranged over
			if env.seq == nil {
				fail("spec: $key() is only available in invariants of a range-over-map loop")
			}
			jv := x.ev(n.Args[0], env, types.Typ[types.Int])
			return x.mkVal(App(env.seq.seq, x.c.Convert(x.term(jv), jv.Typ, types.Typ[types.Int])), env.seq.m.Key())
		case "fresh":
			// fresh(p): p was allocated by the call (not alive before, alive after, non-nil)
			if env.old == nil {
				fail("spec: fresh() used where no pre-state exists")
			}
			v := x.ev(n.Args[0], env, nil)
			ref := x.term(v)
			if isSliceType(v.Typ) {
				ref = App("s-ref", ref)
			}
			a0 := x.h.get(env.old, "alive", "(Array Int Bool)")
			a1 := x.h.get(env.st, "alive", "(Array Int Bool)")
			return x.mkVal(And(Not(Eq(ref, "0")), Not(Sel(a0, ref)), Sel(a1, ref)), types.Typ[types.Bool])
		case "sameArray":
			a, b := x.ev(n.Args[0], env, nil), x.ev(n.Args[1], env, nil)
			return x.mkVal(Eq(App("s-ref", x.term(a)), App("s-ref", x.term(b))), types.Typ[types.Bool])
		}
		// spec function?
		if sf := x.p.Contracts.Specs[env.specPkg()][id.Name]; sf != nil {
			return x.callSpec(sf, n.Args, env)
		}
		// a spec function declared in exactly one other contract file is visible everywhere
		{
			var only *Contract
			cnt := 0
			for _, m := range x.p.Contracts.Specs {
				if sf := m[id.Name]; sf != nil {
					only = sf
					cnt++
				}
			}
			if cnt == 1 {
				return x.callSpec(only, n.Args, env)
			}
		}
		// type conversion?
		if _, isVar := env.vars[id.Name]; !isVar && len(n.Args) == 1 {
			if t := x.p.tryResolveType(id.Name, env.pkg); t != nil {
				return x.specConvert(x.ev(n.Args[0], env, t), t)
			}
		}
		// package-level function of the current package with a pure contract
		if env.pkg != nil {
			if obj, ok := env.pkg.Scope().Lookup(id.Name).(*types.Func); ok {
				return x.callPure(obj, nil, n.Args, env)
			}
		}
		fail("spec: unknown function %q", id.Name)
	}
	if sel, ok := n.Fun.(*ESel); ok {
		// pkg.Func(...) or pkg.Type(x)
		if id, ok := sel.X.(*EId); ok {
			if _, isVar := env.vars[id.Name]; !isVar && (env.cell == nil || env.cell(id.Name) == nil) {
				if p := x.findPkg(env.pkg, id.Name); p != nil {
					if sf := x.p.Contracts.Specs[p.Path()][sel.Name]; sf != nil {
						return x.callSpec(sf, n.Args, env) // spec function of another package's contract file
					}
					obj := p.Scope().Lookup(sel.Name)
					switch o := obj.(type) {
					case *types.Func:
						return x.callPure(o, nil, n.Args, env)
					case *types.TypeName:
						return x.specConvert(x.ev(n.Args[0], env, o.Type()), o.Type())
					}
					fail("spec: %s.%s is not callable", id.Name, sel.Name)
				}
			}
		}
		recv := x.ev(sel.X, env, nil)
		obj, index, _ := types.LookupFieldOrMethod(recv.Typ, true, pkgOfType(recv.Typ), sel.Name)
		m, ok := obj.(*types.Func)
		if !ok {
			fail("spec: %s has no method %s", recv.Typ, sel.Name)
		}
		// a method promoted through embedded fields: the receiver is the embedded object
		for _, fi := range index[:len(index)-1] {
			p, isPtr := recv.Typ.Underlying().(*types.Pointer)
			if !isPtr || recv.L == nil {
				fail("spec: promoted method %s on a non-pointer receiver", sel.Name)
			}
			st := p.Elem()
			ft := x.c.structOf(st).ftypes[fi]
			l := x.fieldLoc(recv.L, st, fi)
			if l.K == LObj {
				recv = &Val{Typ: types.NewPointer(ft), L: l, T: l.Ref}
			} else {
				recv = x.load(env.st, l, ft)
			}
		}
		// value receiver method called through a pointer: pass the value
		if sig, ok := m.Type().(*types.Signature); ok && sig.Recv() != nil {
			_, wantPtr := sig.Recv().Type().(*types.Pointer)
			if _, havePtr := recv.Typ.Underlying().(*types.Pointer); wantPtr && !havePtr {
				// pointer-receiver method on an addressable struct field: pass its address, as Go does
				if _, isSel := sel.X.(*ESel); isSel {
					old := env.st
					l, t := x.evalLoc(sel.X, env)
					env.st = old
					if l != nil && l.K == LObj {
						recv = &Val{Typ: types.NewPointer(t), L: l, T: l.Ref}
					}
				}
			}
			if p, havePtr := recv.Typ.Underlying().(*types.Pointer); havePtr && !wantPtr && recv.L != nil {
				if _, isI := sig.Recv().Type().Underlying().(*types.Interface); !isI {
					recv = x.load(env.st, recv.L, p.Elem())
				}
			}
		}
		return x.callPure(m, recv, n.Args, env)
	}
	fail("spec: cannot call %s", ExprString(n.Fun))
	return nil
}

func (e *Env) specPkg() string {
	if e.fnPkg != "" {
		return e.fnPkg
	}
	if e.pkg != nil {
		return e.pkg.Path()
	}
	return ""
}

func (x *exec) specConvert(v *Val, to types.Type) *Val {
	from := v.Typ
	switch {
	case isInt(from) && isInt(to):
		return x.mkVal(x.c.Convert(x.term(v), from, to), to)
	case isInt(from) && isFloat(to):
		_, signed := x.c.bits(from)
		if x.c.Mode == ModeInt {
			return x.mkVal(fmt.Sprintf("((_ to_fp 11 53) RNE (to_real %s))", x.term(v)), to)
		}
		if signed {
			return x.mkVal(fmt.Sprintf("((_ to_fp 11 53) RNE %s)", x.term(v)), to)
		}
		return x.mkVal(fmt.Sprintf("((_ to_fp_unsigned 11 53) RNE %s)", x.term(v)), to)
	case isStringType(from) && isSliceType(to):
		// []byte(s) in a specification: the byte sequence of the string
		sl := to.Underlying().(*types.Slice)
		x.c.Fun("str-bytes", []string{"Str"}, fmt.Sprintf("(Array %s %s)", x.c.I(), x.c.SortOf(sl.Elem())))
		return &Val{Typ: to, Seq: &seqView{arr: App("str-bytes", x.term(v)), off: x.c.ILit(0), ln: App("str-len", x.term(v))}}
	case isFloat(from) && isInt(to) && x.c.Mode == ModeInt:
		// same uninterpreted conversion the executor uses in arith int
		x.c.Fun("f2i", []string{"(_ FloatingPoint 11 53)"}, "Int")
		return x.mkVal(App("f2i", x.term(v)), to)
	case isFloat(from) && isInt(to) && x.c.Mode == ModeBV:
		bits, signed := x.c.bits(to)
		if signed {
			return x.mkVal(fmt.Sprintf("((_ fp.to_sbv %d) RTZ %s)", bits, x.term(v)), to)
		}
		return x.mkVal(fmt.Sprintf("((_ fp.to_ubv %d) RTZ %s)", bits, x.term(v)), to)
	case x.c.SortOf(from) == x.c.SortOf(to):
		return x.mkVal(x.term(v), to)
	}
	fail("spec: conversion %s -> %s", from, to)
	return nil
}

// seqView is a slice seen as a value sequence.
type seqView struct{ arr, off, ln string }

func (x *exec) seqOf(v *Val, sl *types.Slice, st *State) *seqView {
	if v.Seq != nil {
		return v.Seq
	}
	an, asort := x.elemArr(sl.Elem())
	t := x.term(v)
	return &seqView{arr: Sel(x.h.get(st, an, asort), App("s-ref", t)), off: App("s-off", t), ln: App("s-len", t)}
}

// callPure applies a function or method with a `pure` contract as an uninterpreted function.
func (x *exec) callPure(m *types.Func, recv *Val, args []Expr, env *Env) *Val {
	sig := m.Type().(*types.Signature)
	key := funcKey(m)
	switch key {
	case "math.Floor", "math.Ceil", "math.Trunc":
		// the same rounding the executor gives these library calls
		mm := map[string]string{"math.Floor": "RTN", "math.Ceil": "RTP", "math.Trunc": "RTZ"}
		v := x.ev(args[0], env, types.Typ[types.Float64])
		return x.mkVal(fmt.Sprintf("(fp.roundToIntegral %s %s)", mm[key], x.term(v)), types.Typ[types.Float64])
	case "math.Pow", "math.Log", "math.Exp", "math.Log2", "math.Log10":
		// the same uninterpreted function the executor uses for these library calls
		fn := "uf!" + key
		var sorts, ts []string
		for _, a := range args {
			v := x.ev(a, env, types.Typ[types.Float64])
			sorts = append(sorts, "(_ FloatingPoint 11 53)")
			ts = append(ts, x.term(v))
		}
		x.c.Fun(fn, sorts, "(_ FloatingPoint 11 53)")
		return x.mkVal(App(fn, ts...), types.Typ[types.Float64])
	}
	con := x.p.Contracts.ByKey[key]
	if con == nil || !con.Pure {
		fail("spec: %s needs a `pure` contract to be used in specifications", key)
	}
	con.Used = true
	var avs []*Val
	if recv != nil {
		avs = append(avs, recv)
	}
	for i, a := range args {
		var h types.Type
		if i < sig.Params().Len() {
			h = sig.Params().At(i).Type()
		}
		avs = append(avs, x.ev(a, env, h))
	}
	return x.pureApp(key, con, sig, avs, env.st)
}

// pureApp builds the UF application for a pure function.
func (x *exec) pureApp(key string, con *Contract, sig *types.Signature, args []*Val, st *State) *Val {
	if sig.Results().Len() == 0 {
		fail("pure function %s must have a result", key)
	}
	var sorts, ts []string
	for _, a := range args {
		if sl, ok := a.Typ.Underlying().(*types.Slice); ok && !con.Claims["byref"] {
			// a pure function reads a slice through its contents, offset and length
			sv := x.seqOf(a, sl, st)
			sorts = append(sorts, fmt.Sprintf("(Array %s %s)", x.c.I(), x.c.SortOf(sl.Elem())), x.c.I(), x.c.I())
			ts = append(ts, sv.arr, sv.off, sv.ln)
			continue
		}
		sorts = append(sorts, x.c.SortOf(a.Typ))
		ts = append(ts, x.term(a))
	}
	name := "pure!" + sanitize(strings.TrimPrefix(strings.ReplaceAll(key, "github.com/elastos/Elastos.ELA/", ""), "."))
	if !con.Claims["heapfree"] {
		sorts = append(sorts, "Int")
		ts = append(ts, x.h.get(st, "gv", "Int"))
	}
	x.pureFns[name] = true
	if sig.Results().Len() == 1 {
		rt := sig.Results().At(0).Type()
		x.c.Fun(name, sorts, x.c.SortOf(rt))
		return x.mkVal(App(name, ts...), rt)
	}
	// several results: one uninterpreted function per result
	out := &Val{Typ: sig.Results()}
	for i := 0; i < sig.Results().Len(); i++ {
		rt := sig.Results().At(i).Type()
		fn := fmt.Sprintf("%s!r%d", name, i)
		x.c.Fun(fn, sorts, x.c.SortOf(rt))
		out.Tup = append(out.Tup, x.mkVal(App(fn, ts...), rt))
	}
	return out
}

func funcKey(m *types.Func) string {
	sig := m.Type().(*types.Signature)
	if r := sig.Recv(); r != nil {
		t := r.Type()
		ptr := false
		if p, ok := t.(*types.Pointer); ok {
			t, ptr = p.Elem(), true
		}
		name := types.TypeString(t, func(p *types.Package) string { return p.Path() })
		if ptr {
			return "(*" + name + ")." + m.Name()
		}
		return "(" + name + ")." + m.Name()
	}
	if m.Pkg() != nil {
		return m.Pkg().Path() + "." + m.Name()
	}
	return m.Name()
}

// ---- spec functions (define-fun-rec with implicit heap parameters) ----

type specFn struct {
	name   string
	heap   []string // heap arrays passed implicitly, in order
	sorts  []string
	rt     types.Type
	ptypes []types.Type
}

func (x *exec) callSpec(sf *Contract, args []Expr, env *Env) *Val {
	f := x.compileSpec(sf, env)
	if len(args) != len(f.ptypes) {
		fail("spec function %s expects %d arguments", sf.Key, len(f.ptypes))
	}
	var ts []string
	for i, a := range args {
		v := x.ev(a, env, f.ptypes[i])
		if sl, ok := f.ptypes[i].Underlying().(*types.Slice); ok && isSliceType(v.Typ) {
			sv := x.seqOf(v, sl, env.st)
			ts = append(ts, sv.arr, sv.off, sv.ln)
			continue
		}
		if x.c.SortOf(v.Typ) != x.c.SortOf(f.ptypes[i]) {
			if isInt(v.Typ) && isInt(f.ptypes[i]) {
				v = x.specConvert(v, f.ptypes[i])
			} else {
				fail("spec function %s: argument %d has type %s, want %s", sf.Key, i+1, v.Typ, f.ptypes[i])
			}
		}
		ts = append(ts, x.term(v))
	}
	for i, h := range f.heap {
		ts = append(ts, x.h.get(env.st, h, f.sorts[i]))
	}
	return x.mkVal(App(f.name, ts...), f.rt)
}

func (x *exec) compileSpec(sf *Contract, env *Env) *specFn {
	key := sf.PkgPath + "." + sf.Key
	if f, ok := x.specFns[key]; ok {
		return f
	}
	tp := x.p.typesPkg(sf.PkgPath)
	f := &specFn{name: "spec!" + sanitize(sf.Key)}
	for _, pt := range sf.SpecPTys {
		f.ptypes = append(f.ptypes, x.p.resolveType(pt, tp))
	}
	if sf.SpecRTy == "" {
		fail("spec function %s needs a result type", sf.Key)
	}
	f.rt = x.p.resolveType(sf.SpecRTy, tp)
	x.specFns[key] = f
	if sf.Uninterp {
		var sorts []string
		for _, pt := range f.ptypes {
			if sl, ok := pt.Underlying().(*types.Slice); ok {
				sorts = append(sorts, fmt.Sprintf("(Array %s %s)", x.c.I(), x.c.SortOf(sl.Elem())), x.c.I(), x.c.I())
				continue
			}
			sorts = append(sorts, x.c.SortOf(pt))
		}
		x.c.Fun(f.name, sorts, x.c.SortOf(f.rt))
		return f
	}
	// two passes: the first discovers which heap arrays the body reads
	var body string
	for pass := 0; pass < 3; pass++ {
		st := &State{reach: "true", cells: map[*ssa.Alloc]*Val{}, globals: map[*ssa.Global]*Val{}, heap: map[string]string{}, ghost: map[string]*Val{}, epoch: "specparam"}
		for i, h := range f.heap {
			st.heap[h] = "hp!" + sanitize(h)
			_ = i
		}
		vars := map[string]*Val{}
		for i, p := range sf.Params {
			if isSliceType(f.ptypes[i]) {
				// slices are seen by spec functions as value sequences (contents, offset, length)
				vars[p] = &Val{Typ: f.ptypes[i], Seq: &seqView{arr: "sp!" + p + ".arr", off: "sp!" + p + ".off", ln: "sp!" + p + ".len"}}
				continue
			}
			vars[p] = x.mkVal("sp!"+p, f.ptypes[i])
		}
		ne := &Env{x: x, vars: vars, st: st, pkg: tp, fnPkg: sf.PkgPath}
		x.c.NoLet++
		v := x.ev(sf.SpecBody, ne, f.rt)
		x.c.NoLet--
		if x.c.SortOf(v.Typ) != x.c.SortOf(f.rt) {
			fail("spec function %s: body has type %s, want %s", sf.Key, v.Typ, f.rt)
		}
		body = x.term(v)
		// newly read heap arrays appear as lazily created symbols name@specparam
		var more []string
		for h := range st.heap {
			found := false
			for _, k := range f.heap {
				if k == h {
					found = true
				}
			}
			if !found {
				more = append(more, h)
			}
		}
		if len(more) == 0 {
			break
		}
		sortStrings(more)
		for _, h := range more {
			f.heap = append(f.heap, h)
			f.sorts = append(f.sorts, x.h.sorts[h])
		}
	}
	var params [][2]string
	for i, p := range sf.Params {
		if sl, ok := f.ptypes[i].Underlying().(*types.Slice); ok {
			params = append(params, [2]string{"sp!" + p + ".arr", fmt.Sprintf("(Array %s %s)", x.c.I(), x.c.SortOf(sl.Elem()))},
				[2]string{"sp!" + p + ".off", x.c.I()}, [2]string{"sp!" + p + ".len", x.c.I()})
			continue
		}
		params = append(params, [2]string{"sp!" + p, x.c.SortOf(f.ptypes[i])})
	}
	for i, h := range f.heap {
		params = append(params, [2]string{"hp!" + sanitize(h), f.sorts[i]})
	}
	if sf.Opaque {
		// uninterpreted symbol + defining axiom with the application as trigger
		var sorts, bind, names []string
		for _, pr := range params {
			sorts = append(sorts, pr[1])
			bind = append(bind, fmt.Sprintf("(%s %s)", pr[0], pr[1]))
			names = append(names, pr[0])
		}
		x.c.Fun(f.name, sorts, x.c.SortOf(f.rt))
		app := App(f.name, names...)
		x.c.Axiom([]string{f.name}, fmt.Sprintf("(forall (%s) (! (= %s %s) :pattern (%s)))", strings.Join(bind, " "), app, body, app))
		return f
	}
	rec := strings.Contains(body, "("+f.name+" ")
	x.c.DefineFun(f.name, params, x.c.SortOf(f.rt), body, rec)
	if rec && sf.Unroll > 0 {
		// the same definition unfolded sf.Unroll times: level i is the body with the recursive call
		// replaced by level i-1 (level 0 = the recursive function itself). Semantically identical;
		// it lets the solvers evaluate applications to small arguments by propagation.
		base := f.name
		prev := base
		for i := 1; i <= sf.Unroll; i++ {
			lvl := fmt.Sprintf("%s!u%d", base, i)
			x.c.DefineFun(lvl, params, x.c.SortOf(f.rt), strings.ReplaceAll(body, "("+base+" ", "("+prev+" "), false)
			prev = lvl
		}
		f.name = prev
	}
	return f
}

// ---- type resolution from text ----

func (p *Prog) tryResolveType(text string, pkg *types.Package) (t types.Type) {
	defer func() {
		if r := recover(); r != nil {
			t = nil
		}
	}()
	return p.resolveType(text, pkg)
}

func (p *Prog) resolveType(text string, pkg *types.Package) types.Type {
	e, err := parser.ParseExpr(text)
	if err != nil {
		fail("spec: bad type %q: %v", text, err)
	}
	return p.typeOfAST(e, pkg)
}

func (p *Prog) typeOfAST(e ast.Expr, pkg *types.Package) types.Type {
	switch n := e.(type) {
	case *ast.Ident:
		if n.Name == "integer" {
			return MathInt
		}
		if obj := types.Universe.Lookup(n.Name); obj != nil {
			if tn, ok := obj.(*types.TypeName); ok {
				return tn.Type()
			}
		}
		if pkg != nil {
			if tn, ok := pkg.Scope().Lookup(n.Name).(*types.TypeName); ok {
				return tn.Type()
			}
			// a name that a file of the package sees through a dot import
			var found types.Type
			cnt := 0
			for _, imp := range pkg.Imports() {
				if tn, ok := imp.Scope().Lookup(n.Name).(*types.TypeName); ok && tn.Exported() {
					found = tn.Type()
					cnt++
				}
			}
			if cnt == 1 {
				return found
			}
		}
	case *ast.SelectorExpr:
		if id, ok := n.X.(*ast.Ident); ok {
			if q := p.findPkg(pkg, id.Name); q != nil {
				if tn, ok := q.Scope().Lookup(n.Sel.Name).(*types.TypeName); ok {
					return tn.Type()
				}
			}
		}
	case *ast.StarExpr:
		return types.NewPointer(p.typeOfAST(n.X, pkg))
	case *ast.ArrayType:
		if n.Len == nil {
			return types.NewSlice(p.typeOfAST(n.Elt, pkg))
		}
		if bl, ok := n.Len.(*ast.BasicLit); ok && bl.Kind == token.INT {
			v, _ := new(big.Int).SetString(bl.Value, 0)
			return types.NewArray(p.typeOfAST(n.Elt, pkg), v.Int64())
		}
	case *ast.MapType:
		return types.NewMap(p.typeOfAST(n.Key, pkg), p.typeOfAST(n.Value, pkg))
	case *ast.ParenExpr:
		return p.typeOfAST(n.X, pkg)
	}
	fail("spec: cannot resolve type %s", types.ExprString(e))
	return nil
}
