package vc

import (
	"crypto/sha256"
	"fmt"
	"go/token"
	"go/types"
	"sort"
	"strings"

	"golang.org/x/tools/go/ssa"
)

// FuncResult is the outcome of VC generation for one function under contract.
type FuncResult struct {
	Key     string
	Con     *Contract
	Obligs  []*Oblig
	Err     string // non-empty: function left the supported subset / contract broken
	Notes   []string
	Pos     token.Position
	SSAHash string
	Mode    Mode
}

// VerifyFunc generates the obligations of one function against its contract.
func (p *Prog) VerifyFunc(con *Contract) (res *FuncResult) {
	res = &FuncResult{Key: con.Key, Con: con, Mode: con.Mode}
	if con.Ghost {
		return p.verifyGhost(con)
	}
	fn := p.FuncByKey(con.Key)
	if fn == nil {
		res.Err = "contract-orphan: function not found"
		return
	}
	res.Pos = p.Fset.Position(fn.Pos())
	var sb strings.Builder
	fn.WriteTo(&sb)
	res.SSAHash = fmt.Sprintf("%x", sha256.Sum256([]byte(sb.String())))[:16]
	if fn.Blocks == nil {
		res.Err = "function has no body"
		return
	}
	x := &exec{p: p, c: NewCtx(con.Mode), fn: fn, con: con, subAx: map[string]bool{}, notes: map[string]bool{},
		exprAt: exprIndex(fn), specFns: map[string]*specFn{}, pureFns: map[string]bool{}, fnName: fn.String(), fnPos: fn.Pos(), sliceElem: map[string]string{}, mapField: map[string]*types.Map{}}
	x.h = &heapEnv{c: x.c, sorts: map[string]string{}}
	if fn.Pkg != nil {
		x.file = p.fileOf(fn.Pkg.Pkg.Path(), fn.Pos())
	}
	defer func() {
		if r := recover(); r != nil {
			if u, ok := r.(unsupported); ok {
				res.Err = u.Error()
				res.Obligs = nil
				for n := range x.notes {
					res.Notes = append(res.Notes, n)
				}
				return
			}
			panic(r)
		}
	}()
	x.verify(res)
	for n := range x.notes {
		res.Notes = append(res.Notes, n)
	}
	sort.Strings(res.Notes)
	return
}

func (x *exec) verify(res *FuncResult) {
	fn, con := x.fn, x.con
	names := con.Params
	if con.Recv != "" {
		names = append([]string{con.Recv}, names...)
	}
	if len(names) != len(fn.Params) {
		fail("contract names %d parameters, function has %d", len(names), len(fn.Params))
	}
	st := &State{reach: "true", cells: map[*ssa.Alloc]*Val{}, globals: map[*ssa.Global]*Val{}, heap: map[string]string{}, ghost: map[string]*Val{}, epoch: "0"}
	fr := &frame{fn: fn, con: con, vals: map[ssa.Value]*Val{}, top: true, ranges: map[*ssa.Range]*rangeVal{}}
	vars := map[string]*Val{}
	for i, prm := range fn.Params {
		term := x.c.Const("in."+sanitize(names[i]), x.c.SortOf(prm.Type()))
		v := x.mkVal(term, prm.Type())
		v.Tag = "param:" + names[i]
		fr.params = append(fr.params, v)
		vars[names[i]] = v
		x.assume(st, x.wf(term, prm.Type()))
		x.assume(st, x.aliveVal(st, v))
		switch prm.Type().Underlying().(type) {
		case *types.Pointer, *types.Map:
			st.aliveRefs = append(st.aliveRefs, term)
		case *types.Slice:
			st.aliveRefs = append(st.aliveRefs, App("s-ref", term))
		}
		x.inputs = append(x.inputs, ModelVar{Name: names[i], Term: term, Type: prm.Type().String()})
	}
	tp := fn.Pkg.Pkg
	env := &Env{x: x, vars: vars, st: st, pkg: tp, fnPkg: con.PkgPath}
	for _, r := range con.Requires {
		x.assume(st, x.evalBool(r.E, env))
	}
	x.assumeLemmas(st, con, env)
	if con.Claims["sigma"] {
		// C20: name every heap array of the history's own objects at entry, so that "a stored closure does
		// not touch the history" (A-CLOSURE-FRAME) can be applied to arrays the function reads only later
		if up := x.p.typesPkg(modulePrefix + "utils"); up != nil {
			for _, tn := range []string{"History", "HeightChanges", "change"} {
				obj, _ := up.Scope().Lookup(tn).(*types.TypeName)
				if obj == nil {
					continue
				}
				if stt, ok := obj.Type().Underlying().(*types.Struct); ok {
					for i := 0; i < stt.NumFields(); i++ {
						n, srt := x.fieldArr(obj.Type(), i)
						x.h.get(st, n, srt)
					}
				}
				n, srt := x.elemArr(obj.Type())
				x.h.get(st, n, srt)
			}
		}
	}
	st.reach = x.c.Define("reach.entry", "Bool", st.reach)
	x.obligs = append(x.obligs, &Oblig{Base: "cover:requires", Kind: "cover", Func: fn.String(), Hyp: st.reach, Goal: "true", Cover: true, C: x.c,
		pos: fn.Pos(), Pos: x.p.Fset.Position(fn.Pos())})
	entry := st.clone()
	if con.Claims["assumed-frame"] {
		x.note("assumed frame: the `modifies` clause of %s is used by callers but not verified (its body calls library code outside the subset)", shortKey(con.Key))
	} else if con.ModSet || con.Pure {
		x.frame = x.computeFrame(entry, env)
	}
	x.stack = []*ssa.Function{fn}
	if x.claims("loopvar") {
		x.decodedUseObligs(fn)
	}
	x.run(fr, st)
	x.checkBackEdges(fr)
	// vacuity guard: a `comparator` clause that no sort call picked up would silently prove nothing
	for k, cc := range con.Closures {
		for _, cl := range cc.Comparator {
			if !x.cmpSeen[cl] {
				x.oblig(fr, entry.clone(), fmt.Sprintf("closure%d.comparator", k), cl.Label+":not-reached", fn.Pos(), "false", cl.Props)
			}
		}
	}
	if len(fr.rets) > 0 {
		sr := x.merge(fr.rets, "exit")
		var conds []string
		for _, r := range fr.rets {
			conds = append(conds, r.cond)
		}
		post := &Env{x: x, vars: map[string]*Val{}, st: sr, old: entry, pkg: tp, fnPkg: con.PkgPath}
		for k, v := range vars {
			post.vars[k] = v
		}
		// postconditions may mention function-level locals (their values at return), e.g. a set built by the function
		endPos := fn.Pos()
		if syn := fn.Syntax(); syn != nil {
			endPos = syn.End() - 1
		}
		post.cell = func(name string) *Val {
			if _, isParam := vars[name]; isParam {
				return nil
			}
			return x.lookupLocal(fr, post.st, name, endPos, tp)
		}
		n := fn.Signature.Results().Len()
		var outs []*Val
		for k := 0; k < n; k++ {
			var vs []*Val
			for _, rv := range fr.retv {
				vs = append(vs, rv[k])
			}
			outs = append(outs, x.mergeVals(conds, vs, "result"))
		}
		if n > 0 {
			post.vars["result"] = outs[0]
			for i, name := range con.Results {
				if i < n && name != "_" {
					post.vars[name] = outs[i]
				}
			}
		}
		for i, e := range con.Ensures {
			label := e.Label
			if label == "" {
				label = fmt.Sprint(i + 1)
			}
			g := x.evalBool(e.E, post)
			if len(con.Splits) > 0 {
				// finite case split done by the generator: one query per case plus the complement, so the
				// conjunction of the cases is the unsplit obligation
				sp := con.Splits[0]
				sv := x.eval(sp.E, post, nil)
				st := x.c.Convert(x.term(sv), sv.Typ, types.Typ[types.Int])
				for k := sp.Lo; k <= sp.Hi; k++ {
					x.oblig(fr, sr.clone(), "post", fmt.Sprintf("%s/case%d", label, k), fn.Pos(), Imp(Eq(st, x.c.ILit(int64(k))), g), e.Props)
				}
				out := Or(x.c.ICmp("<", st, x.c.ILit(int64(sp.Lo))), x.c.ICmp("<", x.c.ILit(int64(sp.Hi)), st))
				x.oblig(fr, sr.clone(), "post", label+"/other", fn.Pos(), Imp(out, g), e.Props)
				continue
			}
			// posts are independent obligations: do not assume earlier posts for later ones
			s2 := sr.clone()
			x.oblig(fr, s2, "post", label, fn.Pos(), g, e.Props)
		}
		x.frameCheck(fr, x.frame, sr)
		for _, cv := range con.Covers {
			g := x.evalBool(cv.E, post)
			x.obligs = append(x.obligs, &Oblig{Base: "cover:" + cv.Label, Kind: "cover", Func: fn.String(), Hyp: And(sr.reach, g), Goal: "true", Cover: true, C: x.c,
				pos: fn.Pos(), Pos: x.p.Fset.Position(fn.Pos())})
		}
	} else if len(con.Ensures) > 0 {
		fail("function never returns but has postconditions")
	}
	// stable ordinals
	groups := map[string][]*Oblig{}
	for _, o := range x.obligs {
		groups[o.Base] = append(groups[o.Base], o)
	}
	for base, os := range groups {
		sort.SliceStable(os, func(i, j int) bool { return os[i].pos < os[j].pos })
		for i, o := range os {
			o.Name = shortKey(fn.String()) + "#" + base
			if len(os) > 1 {
				o.Name += fmt.Sprintf("@%d", i+1)
			}
		}
	}
	res.Obligs = x.obligs
}

func (x *exec) aliveVal(s *State, v *Val) string {
	if v.Typ == nil {
		return "true"
	}
	switch v.Typ.Underlying().(type) {
	case *types.Pointer, *types.Map:
		al := x.h.get(s, "alive", "(Array Int Bool)")
		return Or(Eq(x.term(v), "0"), Sel(al, x.term(v)))
	case *types.Slice:
		al := x.h.get(s, "alive", "(Array Int Bool)")
		r := App("s-ref", x.term(v))
		return Or(Eq(r, "0"), Sel(al, r))
	}
	return "true"
}

// frameCheck proves that only the declared locations changed.
func (x *exec) frameCheckOld(fr *frame, entry, exit *State, env *Env) {
	con := x.con
	for _, m := range con.Modifies {
		if m.Text == "*" {
			return
		}
	}
	if exit.epoch != entry.epoch {
		x.oblig(fr, exit.clone(), "frame", "unknown-call", x.fn.Pos(), "false", nil)
		return
	}
	// allowed targets, per heap array
	type target struct {
		ref string
		idx string // optional: element index (E arrays) / key
	}
	allowed := map[string][]target{}
	pre := *env
	pre.st = entry
	for _, m := range con.Modifies {
		text := m.Text
		switch {
		case strings.HasSuffix(text, "[*]"):
			e, _ := ParseExpr(strings.TrimSuffix(text, "[*]"))
			v := x.eval(e, &pre, nil)
			switch u := v.Typ.Underlying().(type) {
			case *types.Slice:
				name, _ := x.elemArr(u.Elem())
				allowed[name] = append(allowed[name], target{ref: App("s-ref", x.term(v))})
			case *types.Map:
				dn, vn, cn, _, _ := x.mapArrs(u)
				for _, n := range []string{dn, vn, cn} {
					allowed[n] = append(allowed[n], target{ref: x.term(v)})
				}
			}
		case strings.HasSuffix(text, ".*"):
			e, _ := ParseExpr(strings.TrimSuffix(text, ".*"))
			v := x.eval(e, &pre, nil)
			p := v.Typ.Underlying().(*types.Pointer)
			if st, ok := p.Elem().Underlying().(*types.Struct); ok {
				for i := 0; i < st.NumFields(); i++ {
					l := x.fieldLoc(v.L, p.Elem(), i)
					if l.K == LFieldHeap {
						n, _ := x.fieldArr(l.T, l.Field)
						allowed[n] = append(allowed[n], target{ref: l.Ref})
					}
				}
			} else {
				n, _ := x.ptrArr(p.Elem())
				allowed[n] = append(allowed[n], target{ref: x.term(v)})
			}
		default:
			l, t := x.evalLoc(m.E, &pre)
			switch l.K {
			case LFieldHeap:
				n, _ := x.fieldArr(l.T, l.Field)
				allowed[n] = append(allowed[n], target{ref: l.Ref})
			case LElem:
				n, _ := x.elemArr(l.T)
				allowed[n] = append(allowed[n], target{ref: App("s-ref", l.Slice), idx: x.c.IAdd(App("s-off", l.Slice), l.Idx)})
			case LObj:
				if _, ok := t.Underlying().(*types.Struct); !ok {
					n, _ := x.ptrArr(t)
					allowed[n] = append(allowed[n], target{ref: l.Ref})
				}
			}
		}
	}
	alive0 := x.h.get(entry, "alive", "(Array Int Bool)")
	var names []string
	for n := range exit.heap {
		names = append(names, n)
	}
	sort.Strings(names)
	for _, n := range names {
		if n == "alive" || n == "gv" {
			continue
		}
		sortN := x.h.sorts[n]
		t0 := x.h.get(entry, n, sortN)
		t1 := exit.heap[n]
		if t0 == t1 {
			continue
		}
		r := x.c.FreshConst("fr.r", "Int")
		var excl []string
		elemLevel := ""
		for _, tg := range allowed[n] {
			if tg.idx == "" {
				excl = append(excl, Not(Eq(r, tg.ref)))
			}
		}
		goal := Eq(Sel(t1, r), Sel(t0, r))
		if strings.HasPrefix(n, "E!") {
			// element-level targets
			j := x.c.FreshConst("fr.j", x.c.I())
			var ex2 []string
			for _, tg := range allowed[n] {
				if tg.idx != "" {
					ex2 = append(ex2, Not(And(Eq(r, tg.ref), Eq(j, tg.idx))))
				}
			}
			goal = Imp(And(ex2...), Eq(Sel(Sel(t1, r), j), Sel(Sel(t0, r), j)))
			_ = elemLevel
		}
		s2 := exit.clone()
		x.oblig(fr, s2, "frame", shortHeapName(n), x.fn.Pos(), Imp(And(append(excl, Sel(alive0, r))...), goal), nil)
	}
}

func shortHeapName(n string) string { return strings.ReplaceAll(n, "!", ".") }

// loopEnv builds the environment in which loop invariants are evaluated.
func (x *exec) loopEnv(fr *frame, li *loopInfo, s *State) *Env {
	env := x.frameEnv(fr, s, li.minPos)
	// $i: completed iterations of a range loop
	for _, in := range li.head.Instrs {
		switch i := in.(type) {
		case *ssa.UnOp:
			// NaiveForm: the range index lives in a local cell named "rangeindex"
			if a, ok := i.X.(*ssa.Alloc); ok && a.Comment == "rangeindex" {
				if _, done := env.vars["$i"]; !done {
					if v, ok := s.cells[a]; ok && v.T != "" {
						env.vars["$i"] = x.mkVal(x.c.IAdd(v.T, x.c.ILit(1)), types.Typ[types.Int])
					}
				}
			}
		case *ssa.Phi:
			if i.Comment == "rangeindex" {
				if v, ok := fr.vals[i]; ok {
					env.vars["$i"] = x.mkVal(x.c.IAdd(x.term(v), x.c.ILit(1)), types.Typ[types.Int])
				}
			}
		case *ssa.Next:
			if rg, ok := i.Iter.(*ssa.Range); ok {
				if ri := fr.ranges[rg]; ri != nil {
					if c := s.ghost[ri.ctrName]; c != nil {
						env.vars["$i"] = c
						env.vars["$n"] = x.mkVal(ri.n, types.Typ[types.Int])
						x.rangeSeq(env, ri)
						if vis := s.ghost[ri.visName]; vis != nil {
							env.visited = vis.T
						}
					}
				}
			}
		}
	}
	return env
}

// rangeSeq exposes the ghost key sequence of a map range as `$key(j)`.
func (x *exec) rangeSeq(env *Env, ri *rangeVal) {
	env.seq = ri
}

// frameEnv resolves source-level names of a frame at a position.
func (x *exec) frameEnv(fr *frame, s *State, pos token.Pos) *Env {
	fn := fr.fn
	var tp *types.Package
	root := fn
	for root.Parent() != nil {
		root = root.Parent()
	}
	if root.Pkg != nil {
		tp = root.Pkg.Pkg
	}
	con := fr.con
	vars := map[string]*Val{}
	// entry values of parameters (top-level frame: contract names)
	if fr.top && con != nil {
		names := con.Params
		if con.Recv != "" {
			names = append([]string{con.Recv}, names...)
		}
		for i, n := range names {
			if i < len(fr.params) {
				vars[n+"0"] = fr.params[i]
			}
		}
	}
	env := &Env{x: x, vars: vars, st: s, old: fr.entry, pkg: tp}
	if con != nil {
		env.fnPkg = con.PkgPath
	}
	if x.con != nil && env.fnPkg == "" {
		env.fnPkg = x.con.PkgPath
	}
	env.cell = func(name string) *Val {
		return x.lookupLocal(fr, env.st, name, pos, tp)
	}
	return env
}

func (x *exec) lookupLocal(fr *frame, s *State, name string, pos token.Pos, tp *types.Package) *Val {
	fn := fr.fn
	var cands []*ssa.Alloc
	for _, b := range fn.Blocks {
		for _, in := range b.Instrs {
			if a, ok := in.(*ssa.Alloc); ok && a.Comment == name {
				cands = append(cands, a)
			}
		}
	}
	pick := func() *ssa.Alloc {
		if len(cands) == 0 {
			return nil
		}
		if len(cands) == 1 {
			return cands[0]
		}
		if tp != nil && pos.IsValid() {
			if sc := tp.Scope().Innermost(pos); sc != nil {
				if _, obj := sc.LookupParent(name, pos); obj != nil {
					for _, a := range cands {
						if a.Pos() == obj.Pos() {
							return a
						}
					}
				}
			}
		}
		// latest declaration before pos
		var best *ssa.Alloc
		for _, a := range cands {
			if a.Pos() <= pos && (best == nil || a.Pos() > best.Pos()) {
				best = a
			}
		}
		if best == nil {
			best = cands[0]
		}
		return best
	}
	if a := pick(); a != nil {
		et := a.Type().Underlying().(*types.Pointer).Elem()
		if !a.Heap {
			if v, ok := s.cells[a]; ok {
				return v
			}
			// not yet allocated in this state (e.g. old()): parameters fall back to entry values
		} else if pv, ok := fr.vals[a]; ok && pv.L != nil {
			return x.load(s, pv.L, et)
		}
	}
	// parameter entry values
	for i, prm := range fn.Params {
		if prm.Name() == name && i < len(fr.params) {
			return fr.params[i]
		}
	}
	// captured variables of a function literal
	for i, fv := range fn.FreeVars {
		if fv.Name() == name && i < len(fr.free) {
			b := fr.free[i]
			if b.L != nil {
				et := fv.Type().Underlying().(*types.Pointer).Elem()
				return x.load(s, b.L, et)
			}
		}
	}
	return nil
}

// assumeLemmas adds the lemmas named by `uses` as hypotheses. A lemma is a closed formula over spec
// functions that is proved on its own (obligation `<pkg>#lemma:<name>`, same property), so using it
// here is the ordinary lemma rule, not an assumption.
func (x *exec) assumeLemmas(st *State, con *Contract, env *Env) {
	for _, name := range con.Uses {
		var lem *Lemma
		for _, l := range x.p.Contracts.Lemmas {
			if l.Name == name && (l.PkgPath == con.PkgPath || lem == nil) {
				lem = l
			}
		}
		if lem == nil {
			fail("uses %s: no such lemma", name)
		}
		ok := false
		for _, lp := range lem.Props {
			for _, cp := range con.Props {
				if lp == cp {
					ok = true
				}
			}
		}
		if !ok {
			fail("uses %s: the lemma is not proved under any property of this contract", name)
		}
		le := &Env{x: x, vars: map[string]*Val{}, st: st, pkg: x.p.typesPkg(lem.PkgPath), fnPkg: lem.PkgPath}
		x.assume(st, x.evalBool(lem.E, le))
		x.note("lemma %s (proved separately) used as a hypothesis", name)
	}
}
