package vc

import (
	"fmt"
	"go/token"
	"go/types"
	"strings"

	"golang.org/x/tools/go/ssa"
)

const modulePrefix = "github.com/elastos/Elastos.ELA/"

func shortKey(k string) string { return strings.ReplaceAll(k, modulePrefix, "") }

// noopCalls are modelled as effect-free calls (assumption A-LOG / A-SEQ).
func isNoopCall(key string) bool {
	switch {
	case strings.HasPrefix(key, "(*sync.Mutex)."), strings.HasPrefix(key, "(*sync.RWMutex)."),
		strings.HasPrefix(key, "(*sync.WaitGroup)."), strings.HasPrefix(key, "(*sync.Once)."):
		return true
	case strings.HasPrefix(key, modulePrefix+"common/log."), strings.HasPrefix(key, modulePrefix+"utils/elalog."),
		strings.HasPrefix(key, "("+modulePrefix+"utils/elalog.Logger)."), strings.HasPrefix(key, "(*"+modulePrefix+"common/log."),
		strings.HasPrefix(key, "(*"+modulePrefix+"utils/elalog."):
		return true
	case strings.HasPrefix(key, "fmt.Print"), strings.HasPrefix(key, "fmt.Fprint"), strings.HasPrefix(key, "log.Print"):
		return true
	}
	if strings.HasSuffix(key, "/log.Debug") || strings.HasSuffix(key, "/log.Debugf") || strings.HasSuffix(key, "/log.Info") ||
		strings.HasSuffix(key, "/log.Infof") || strings.HasSuffix(key, "/log.Warn") || strings.HasSuffix(key, "/log.Warnf") ||
		strings.HasSuffix(key, "/log.Error") || strings.HasSuffix(key, "/log.Errorf") {
		return true
	}
	return false
}

// errCtor: functions returning a fresh non-nil error without side effects.
func isErrCtor(key string) bool {
	switch key {
	case "errors.New", "fmt.Errorf", modulePrefix + "errors.Simple", modulePrefix + "errors.SimpleWithMessage":
		return true
	}
	return false
}

func (x *exec) call(fr *frame, s *State, cc *ssa.CallCommon, instr ssa.Value, pos token.Pos) *Val {
	var args []*Val
	for _, a := range cc.Args {
		args = append(args, x.val(fr, a, s))
	}
	sig := cc.Signature()
	resT := resultType(sig)
	if cc.IsInvoke() {
		recv := x.val(fr, cc.Value, s)
		key := funcKey(cc.Method)
		if key == "(error).Error" {
			if x.claims("nilerr") {
				// err.Error() on a nil error value panics
				x.oblig(fr, s, "nilerr", x.srcText(pos, "err.Error()"), pos, Not(Eq(App("i-tag", x.term(recv)), "0")), nil)
			}
			return x.freshVal("errstr", resT, s)
		}
		if isNoopCall(key) {
			x.note("A-LOG: %s modelled as effect-free", shortKey(key))
			return x.zeroResult(resT)
		}
		if con := x.p.Contracts.ByKey[key]; con != nil {
			return x.applyContract(fr, s, con, sig, append([]*Val{recv}, args...), pos, key)
		}
		return x.unknownCall(fr, s, key, append([]*Val{recv}, args...), resT, pos)
	}
	switch callee := cc.Value.(type) {
	case *ssa.Builtin:
		return x.builtin(fr, s, callee, cc, args, resT, pos)
	case *ssa.Function:
		return x.staticCall(fr, s, callee, nil, args, sig, resT, pos)
	case *ssa.MakeClosure:
		cv := x.val(fr, callee, s)
		return x.staticCall(fr, s, cv.Clo.Fn, cv.Clo.Bind, args, sig, resT, pos)
	}
	fv := x.val(fr, cc.Value, s)
	if fv.Clo != nil {
		return x.staticCall(fr, s, fv.Clo.Fn, fv.Clo.Bind, args, sig, resT, pos)
	}
	if strings.HasPrefix(fv.Tag, "param:") && x.con != nil && x.con.Callbacks != nil {
		// call of a function-typed parameter: the contract states what must hold whenever it is invoked
		name := strings.TrimPrefix(fv.Tag, "param:")
		if cb := x.con.Callbacks[name]; cb != nil {
			if len(cb.Params) != len(args) {
				fail("callback %s names %d parameters, call has %d", name, len(cb.Params), len(args))
			}
			env := x.frameEnv(fr, s, pos)
			for i, pn := range cb.Params {
				env.vars[pn] = args[i]
			}
			// parameters of the function under proof by their contract names
			pnames := x.con.Params
			if x.con.Recv != "" {
				pnames = append([]string{x.con.Recv}, pnames...)
			}
			for f := fr; f != nil; f = f.parent {
				if f.top {
					for i, n := range pnames {
						if _, taken := env.vars[n]; !taken && i < len(f.params) {
							env.vars[n] = f.params[i]
						}
					}
				}
			}
			for i, r := range cb.Requires {
				label := r.Label
				if label == "" {
					label = fmt.Sprint(i + 1)
				}
				x.oblig(fr, s, "callback."+name, label, pos, x.evalBool(r.E, env), r.Props)
			}
		}
	}
	if x.con != nil && x.con.Claims["sigma"] && len(args) == 0 && resT == nil {
		// C20: calling a stored change closure transforms the abstract client state `$sigma` by the
		// uninterpreted app(f, sigma); it may write anything except the history's own bookkeeping objects
		// (A-CLOSURE-FRAME: change closures do not reach into the History that stores them)
		keep := map[string]string{}
		for n, t := range s.heap {
			if strings.Contains(n, "utils.History") || strings.Contains(n, "utils.HeightChanges") || strings.Contains(n, "utils.change") || n == "alive" {
				keep[n] = t
			}
		}
		sg := x.sigmaGet(s)
		x.havocAll(s)
		for n, t := range keep {
			s.heap[n] = t
		}
		x.c.Fun("sigma!app", []string{"Int", x.sigmaSort()}, x.sigmaSort())
		x.h.set(s, sigmaName, x.sigmaSort(), App("sigma!app", x.term(fv), sg))
		x.note("A-CLOSURE-FRAME: a stored change closure is an uninterpreted transformer of the client state and does not touch the history's own objects")
		return &Val{}
	}
	if u, ok := cc.Value.(*ssa.UnOp); ok && u.Op == token.MUL {
		// call through a package-level function variable (`var F = func…`, set once at start-up): an assumed
		// contract written for `pkg.F` speaks for whatever function the variable holds
		if g, ok := u.X.(*ssa.Global); ok && g.Pkg != nil {
			key := g.Pkg.Pkg.Path() + "." + g.Name()
			if con := x.p.Contracts.ByKey[key]; con != nil && con.Assumed && x.assumedInScope(con) {
				return x.applyContract(fr, s, con, sig, args, pos, key)
			}
		}
	}
	return x.unknownCall(fr, s, "dynamic call "+cc.Value.Name(), args, resT, pos)
}

const sigmaName = "ghost!sigma"

func (x *exec) sigmaSort() string { return x.c.SortOf(types.Typ[types.Int]) }

func (x *exec) sigmaGet(s *State) string { return x.h.get(s, sigmaName, x.sigmaSort()) }

func sharesProp(a, b []string) bool {
	for _, p := range a {
		for _, q := range b {
			if p == q {
				return true
			}
		}
	}
	return false
}

func resultType(sig *types.Signature) types.Type {
	switch sig.Results().Len() {
	case 0:
		return nil
	case 1:
		return sig.Results().At(0).Type()
	}
	return sig.Results()
}

func (x *exec) zeroResult(t types.Type) *Val {
	if t == nil {
		return &Val{}
	}
	if tp, ok := t.(*types.Tuple); ok {
		v := &Val{Typ: t}
		for i := 0; i < tp.Len(); i++ {
			v.Tup = append(v.Tup, x.mkVal(x.c.Zero(tp.At(i).Type()), tp.At(i).Type()))
		}
		return v
	}
	return x.mkVal(x.c.Zero(t), t)
}

func (x *exec) wantInline(fr *frame, fn *ssa.Function) bool {
	cons := []*Contract{x.con}
	if fr.con != nil {
		cons = append(cons, fr.con)
	}
	for _, c := range cons {
		if c == nil {
			continue
		}
		if c.Inline["*"] && fn.Blocks != nil {
			return true
		}
		if c.Inline[fn.Name()] || c.Inline[fn.String()] || c.Inline[shortKey(fn.String())] {
			return true
		}
		if fn.Pkg != nil && c.Inline[fn.Pkg.Pkg.Name()+"."+fn.Name()] {
			return true
		}
		if r := fn.Signature.Recv(); r != nil {
			if c.Inline[shortKey(fn.RelString(nil))] || c.Inline[fn.RelString(fn.Pkg.Pkg)] {
				return true
			}
		}
	}
	return false
}

func (x *exec) staticCall(fr *frame, s *State, fn *ssa.Function, bind []*Val, args []*Val, sig *types.Signature, resT types.Type, pos token.Pos) *Val {
	key := fn.String()
	if x.con != nil && x.con.CallSites != nil && fr.top {
		for _, nm := range []string{fn.Name(), shortKey(key), key} {
			for i, r := range x.con.CallSites[nm] {
				label := r.Label
				if label == "" {
					label = fmt.Sprint(i + 1)
				}
				env := x.frameEnv(fr, s, pos)
				x.oblig(fr, s, "callsite."+fn.Name(), label, pos, x.evalBool(r.E, env), r.Props)
			}
		}
	}
	if key == historyAppendKey {
		x.appendSite(fr, s, args, pos)
		x.note("utils.History.Append: stores the pair, runs nothing now (its own behaviour is C20)")
		return &Val{}
	}
	if isNoopCall(key) {
		x.note("A-LOG/A-SEQ: %s modelled as effect-free", shortKey(key))
		return x.zeroResult(resT)
	}
	if isErrCtor(key) {
		v := x.freshVal("err", resT, s)
		if isIfaceType(resT) {
			x.assume(s, Not(Eq(App("i-tag", x.term(v)), "0")))
		} else {
			x.assume(s, Not(Eq(x.term(v), "0"))) // a freshly built error object (pointer)
		}
		return v
	}
	if r, ok := x.model(fr, s, key, args, resT, pos); ok {
		return r
	}
	if fn.Parent() != nil || bind != nil {
		// function literal: always executed in place
		if fn.Blocks != nil && !x.onStack(fn) {
			return x.inline(fr, s, fn, args, bind, pos)
		}
	}
	if con := x.p.Contracts.ByKey[key]; con != nil && !x.wantInline(fr, fn) && x.assumedInScope(con) {
		return x.applyContract(fr, s, con, fn.Signature, args, pos, key)
	}
	if fn.Blocks != nil && x.wantInline(fr, fn) && !x.onStack(fn) {
		return x.inline(fr, s, fn, args, bind, pos)
	}
	return x.unknownCall(fr, s, key, args, resT, pos)
}

// assumedInScope: an assumed contract that names properties (`props Cxx`) is an assumption made for those
// properties only; proofs of functions that do not share one of them see the call without a contract.
func (x *exec) assumedInScope(con *Contract) bool {
	if !con.Assumed || len(con.Props) == 0 || x.con == nil {
		return true
	}
	return sharesProp(con.Props, x.con.Props)
}

func (x *exec) onStack(fn *ssa.Function) bool {
	for _, f := range x.stack {
		if f == fn {
			return true
		}
	}
	return len(x.stack) > 12
}

func (x *exec) unknownCall(fr *frame, s *State, key string, args []*Val, resT types.Type, pos token.Pos) *Val {
	x.note("unknown call: %s — heap havocked, results unconstrained, assumed not to panic", shortKey(key))
	x.havocOrigins(s, args)
	x.havocAll(s)
	if resT == nil {
		return &Val{}
	}
	return x.freshVal("ret."+lastName(key), resT, s)
}

func lastName(k string) string {
	if i := strings.LastIndexAny(k, "./)"); i >= 0 {
		return k[i+1:]
	}
	return k
}

// havocOrigins invalidates array storage that slices passed to a call alias.
func (x *exec) havocOrigins(s *State, args []*Val) {
	for _, a := range args {
		if a != nil && a.Origin != nil {
			x.store(s, a.Origin, x.freshVal("arr", a.OriginT, s), a.OriginT)
		}
	}
}

func (x *exec) inline(fr *frame, s *State, fn *ssa.Function, args, bind []*Val, pos token.Pos) *Val {
	nf := &frame{fn: fn, vals: map[ssa.Value]*Val{}, params: args, free: bind, ranges: map[*ssa.Range]*rangeVal{}}
	nf.con = x.p.Contracts.ByKey[fn.String()]
	if fn.Parent() != nil {
		// function literal: contract is `closure k` of the enclosing function's contract
		if pc := x.closureContract(fr, fn); pc != nil {
			nf.con = pc
		}
		nf.prefix = fr.prefix + fmt.Sprintf("closure%d.", closureOrdinal(fn))
	} else {
		nf.prefix = fr.prefix + "inl." + fn.Name() + "."
	}
	x.stack = append(x.stack, fn)
	defer func() { x.stack = x.stack[:len(x.stack)-1] }()
	x.run(nf, s)
	x.checkBackEdges(nf)
	if len(nf.rets) == 0 {
		s.reach = "false"
		return x.zeroResult(resultType(fn.Signature))
	}
	m := x.merge(nf.rets, "ret."+fn.Name())
	*s = *m
	if fn.Parent() != nil && nf.con != nil && len(nf.con.Ensures) > 0 && x.dry == 0 {
		// `closure k: ensures P`: checked where the function literal is executed (for change pairs: from the
		// state in which the pair is appended); old() is the state before the literal ran
		endPos := fn.Pos()
		if syn := fn.Syntax(); syn != nil {
			endPos = syn.End() - 1
		}
		env := x.frameEnv(nf, s, endPos)
		// parameters of the enclosing function under proof by their contract names
		if x.con != nil {
			pnames := x.con.Params
			if x.con.Recv != "" {
				pnames = append([]string{x.con.Recv}, pnames...)
			}
			for f := fr; f != nil; f = f.parent {
				if f.top {
					for i, n := range pnames {
						if _, taken := env.vars[n]; !taken && i < len(f.params) && env.cell(n) == nil {
							env.vars[n] = f.params[i]
						}
					}
				}
			}
		}
		for i, e := range nf.con.Ensures {
			label := e.Label
			if label == "" {
				label = fmt.Sprint(i + 1)
			}
			x.oblig(nf, s.clone(), "post", label, pos, x.evalBool(e.E, env), e.Props)
		}
	}
	n := fn.Signature.Results().Len()
	if n == 0 {
		return &Val{}
	}
	var conds []string
	for _, r := range nf.rets {
		conds = append(conds, r.cond)
	}
	var outs []*Val
	for k := 0; k < n; k++ {
		var vs []*Val
		for _, rv := range nf.retv {
			vs = append(vs, rv[k])
		}
		outs = append(outs, x.mergeVals(conds, vs, "ret."+fn.Name()))
	}
	if n == 1 {
		return outs[0]
	}
	return &Val{Typ: fn.Signature.Results(), Tup: outs}
}

func closureOrdinal(fn *ssa.Function) int {
	p := fn.Parent()
	if p == nil {
		return 0
	}
	for i, a := range p.AnonFuncs {
		if a == fn {
			return i + 1
		}
	}
	return 0
}

func (x *exec) closureContract(fr *frame, fn *ssa.Function) *Contract {
	if fr.con == nil {
		return nil
	}
	return fr.con.Closures[closureOrdinal(fn)]
}

// applyContract uses the callee's contract at a call site.
func (x *exec) applyContract(fr *frame, s *State, con *Contract, sig *types.Signature, args []*Val, pos token.Pos, key string) *Val {
	con.Used = true
	if con.Assumed {
		x.note("assumed contract: %s", shortKey(key))
	}
	names := con.Params
	if con.Recv != "" {
		names = append([]string{con.Recv}, names...)
	}
	if len(names) != len(args) {
		fail("contract of %s names %d parameters, call has %d", key, len(names), len(args))
	}
	tp := x.p.typesPkg(con.PkgPath)
	vars := map[string]*Val{}
	for i, n := range names {
		vars[n] = args[i]
	}
	env := &Env{x: x, vars: vars, st: s, pkg: tp, fnPkg: con.PkgPath}
	short := lastName(key)
	for i, r := range con.Requires {
		label := r.Label
		if label == "" {
			label = fmt.Sprint(i + 1)
		}
		if len(r.Props) > 0 && x.con != nil && !sharesProp(r.Props, x.con.Props) {
			// a precondition tagged for other properties only concerns proofs of those properties
			continue
		}
		g, ok := x.evalBoolModeOpt(r.E, env)
		if !ok {
			// a clause over bigval() cannot be stated in a bit-vector proof: the big.Int value is not tracked there
			continue
		}
		x.oblig(fr, s, "pre."+short, label, pos, g, r.Props)
	}
	pre := s.clone()
	resT := resultType(sig)
	var res *Val
	if con.Pure {
		res = x.pureApp(key, con, sig, args, s)
		parts := res.Tup
		if parts == nil {
			parts = []*Val{res}
		}
		for _, pv := range parts {
			if wf := x.wf(x.term(pv), pv.Typ); wf != "true" {
				x.assume(s, wf)
			}
			x.assume(s, x.aliveVal(s, pv))
		}
	} else {
		x.applyModifies(s, con, env, args)
		// the callee may allocate: the set of live objects can only grow
		if _, ok := s.heap["alive"]; ok || true {
			a0 := x.h.get(s, "alive", "(Array Int Bool)")
			a1 := x.c.FreshConst("alive", "(Array Int Bool)")
			q := x.c.Fresh("r")
			x.c.Axiom([]string{a1}, fmt.Sprintf("(forall ((%s Int)) (! (=> (select %s %s) (select %s %s)) :pattern ((select %s %s))))", q, a0, q, a1, q, a1, q))
			s.heap["alive"] = a1
			x.reassertAlive(s)
		}
		if resT != nil {
			res = x.freshVal("ret."+short, resT, s)
		} else {
			res = &Val{}
		}
	}
	post := *env
	post.vars = map[string]*Val{}
	for k, v := range vars {
		post.vars[k] = v
	}
	post.old = pre
	post.st = s
	x.bindResults(post.vars, con, res, sig)
	for _, e := range con.Ensures {
		if e.Local && !(x.con != nil && x.con.Ghost) {
			continue // `proves` clause: only ghost lemmas over the contract may use it
		}
		if len(e.Props) > 0 && x.con != nil && !sharesProp(e.Props, x.con.Props) {
			// a postcondition tagged for other properties is not used in this proof: its tagged
			// preconditions were not checked here either
			continue
		}
		// postconditions over the callee's own locals are facts about its body, not about the call
		if t, ok := x.evalBoolLocalsOpt(e.E, &post); ok {
			x.assume(s, t)
		}
	}
	return res
}

// evalBoolModeOpt evaluates a clause; ok is false when it speaks about bigval() in a bit-vector proof.
func (x *exec) evalBoolModeOpt(e Expr, env *Env) (t string, ok bool) {
	defer func() {
		if r := recover(); r != nil {
			if u, isU := r.(unsupported); isU && strings.Contains(u.msg, "bigval() needs arith int") {
				t, ok = "", false
				return
			}
			panic(r)
		}
	}()
	return x.evalBool(e, env), true
}

// evalBoolLocalsOpt evaluates a postcondition at a call site; ok is false when it mentions an
// identifier that only exists inside the callee (a function-level local).
func (x *exec) evalBoolLocalsOpt(e Expr, env *Env) (t string, ok bool) {
	defer func() {
		if r := recover(); r != nil {
			if u, isU := r.(unsupported); isU && (strings.Contains(u.msg, "unknown identifier") || strings.Contains(u.msg, "bigval() needs arith int")) {
				t, ok = "", false
				return
			}
			panic(r)
		}
	}()
	return x.evalBool(e, env), true
}

func (x *exec) bindResults(vars map[string]*Val, con *Contract, res *Val, sig *types.Signature) {
	n := sig.Results().Len()
	if n == 0 {
		return
	}
	var rs []*Val
	if n == 1 {
		rs = []*Val{res}
	} else {
		rs = res.Tup
	}
	vars["result"] = rs[0]
	for i, name := range con.Results {
		if i < len(rs) && name != "_" {
			vars[name] = rs[i]
		}
	}
}

// applyModifies havocs the locations a contract may write.
func (x *exec) applyModifies(s *State, con *Contract, env *Env, args []*Val) {
	if !con.ModSet {
		if con.Assumed || con.Pure {
			return
		}
		x.havocOrigins(s, args)
		x.havocAll(s)
		return
	}
	for _, m := range con.Modifies {
		if m.Text == "*" {
			x.havocOrigins(s, args)
			x.havocAll(s)
			return
		}
		if m.Text == "$client" {
			// the callee runs stored change closures: anything may change except the history's own objects
			keep := map[string]string{}
			for n, t := range s.heap {
				if strings.Contains(n, "utils.History") || strings.Contains(n, "utils.HeightChanges") || strings.Contains(n, "utils.change") || n == "alive" {
					keep[n] = t
				}
			}
			x.havocAll(s)
			for n, t := range keep {
				s.heap[n] = t
			}
			return
		}
	}
	// bump the ghost heap version so pure accessors are not assumed stable
	if con.Claims["purestable"] {
		// A-PURE-STABLE (stated per contract): what this function writes is not read by the pure accessors
		// of other objects
		x.note("A-PURE-STABLE: the locations %s writes are assumed disjoint from what pure accessors read", shortKey(con.Key))
	} else if len(con.Modifies) > 0 {
		s.heap["gv"] = x.c.FreshConst("gv", "Int")
		x.h.sorts["gv"] = "Int"
	}
	for _, m := range con.Modifies {
		x.havocTarget(s, m, env)
	}
}

func (x *exec) havocTarget(s *State, m *Clause, env *Env) {
	text := m.Text
	switch {
	case strings.HasPrefix(text, "bigval("):
		ce, ok := m.E.(*ECall)
		if !ok || len(ce.Args) != 1 {
			fail("modifies %s: bigval(e)", text)
		}
		v := x.eval(ce.Args[0], env, nil)
		h := x.h.get(s, bigvalArr, x.bigvalSort())
		x.h.set(s, bigvalArr, x.bigvalSort(), Sto(h, x.term(v), x.c.FreshConst("hv", x.c.SortOf(MathInt))))
	case strings.HasPrefix(text, "csprng("):
		// the provenance flag of one object may change
		ce, ok := m.E.(*ECall)
		if !ok || len(ce.Args) != 1 {
			fail("modifies %s: csprng(e)", text)
		}
		v := x.eval(ce.Args[0], env, nil)
		h := x.h.get(s, csprngArr, "(Array Int Bool)")
		x.h.set(s, csprngArr, "(Array Int Bool)", Sto(h, x.refOf(v), x.c.FreshConst("hv", "Bool")))
	case strings.HasSuffix(text, "[*]"):
		e, err := ParseExpr(strings.TrimSuffix(text, "[*]"))
		if err != nil {
			fail("modifies %s: %v", text, err)
		}
		v := x.eval(e, env, nil)
		switch u := v.Typ.Underlying().(type) {
		case *types.Slice:
			name, sortN := x.elemArr(u.Elem())
			h := x.h.get(s, name, sortN)
			fresh := x.c.FreshConst("hv", fmt.Sprintf("(Array %s %s)", x.c.I(), x.c.SortOf(u.Elem())))
			x.h.set(s, name, sortN, Sto(h, App("s-ref", x.term(v)), fresh))
			if v.Origin != nil {
				x.store(s, v.Origin, x.freshVal("arr", v.OriginT, s), v.OriginT)
			}
		case *types.Map:
			_, _, _, names, sorts := x.mapParts(s, u, x.term(v))
			ks, vs := x.c.SortOf(u.Key()), x.c.SortOf(u.Elem())
			fs := []string{fmt.Sprintf("(Array %s Bool)", ks), fmt.Sprintf("(Array %s %s)", ks, vs), x.c.I()}
			for i := range names {
				x.h.set(s, names[i], sorts[i], Sto(x.h.get(s, names[i], sorts[i]), x.term(v), x.c.FreshConst("hv", fs[i])))
			}
		default:
			fail("modifies %s: not a slice or map", text)
		}
	case strings.HasSuffix(text, ".*"):
		e, err := ParseExpr(strings.TrimSuffix(text, ".*"))
		if err != nil {
			fail("modifies %s: %v", text, err)
		}
		v := x.eval(e, env, nil)
		p, ok := v.Typ.Underlying().(*types.Pointer)
		if !ok || v.L == nil {
			fail("modifies %s: not a pointer", text)
		}
		x.store(s, v.L, x.freshVal("hv", p.Elem(), s), p.Elem())
	default:
		l, t := x.evalLoc(m.E, env)
		x.store(s, l, x.freshVal("hv", t, s), t)
	}
}

// evalLoc evaluates an lvalue expression (p.f, p.f.g, s[i], *p) to a location.
func (x *exec) evalLoc(e Expr, env *Env) (*Loc, types.Type) {
	switch n := e.(type) {
	case *ESel:
		xv := x.eval(n.X, env, nil)
		p, ok := xv.Typ.Underlying().(*types.Pointer)
		if !ok {
			// a struct held by value inside an addressable object (p.a.b): address it through its parent
			if _, isSel := n.X.(*ESel); isSel {
				if pl, pt := x.evalLoc(n.X, env); pl != nil && pl.K == LObj {
					xv = &Val{Typ: types.NewPointer(pt), L: pl, T: pl.Ref}
					p, ok = xv.Typ.Underlying().(*types.Pointer)
				}
			}
		}
		if !ok || xv.L == nil {
			fail("modifies: %s is not a pointer to a struct", ExprString(n.X))
		}
		obj, index, _ := types.LookupFieldOrMethod(xv.Typ, true, pkgOfType(xv.Typ), n.Name)
		if _, ok := obj.(*types.Var); !ok {
			fail("modifies: no field %s", n.Name)
		}
		l := xv.L
		st := p.Elem()
		var ft types.Type
		for _, fi := range index {
			if pp, ok := st.Underlying().(*types.Pointer); ok {
				v := x.load(env.st, l, st)
				l = v.L
				st = pp.Elem()
			}
			ft = x.c.structOf(st).ftypes[fi]
			l = x.fieldLoc(l, st, fi)
			st = ft
		}
		return l, ft
	case *EIdx:
		xv := x.eval(n.X, env, nil)
		if sl, ok := xv.Typ.Underlying().(*types.Slice); ok {
			iv := x.eval(n.I, env, types.Typ[types.Int])
			return &Loc{K: LElem, Slice: x.term(xv), Idx: x.c.Convert(x.term(iv), iv.Typ, types.Typ[types.Int]), T: sl.Elem()}, sl.Elem()
		}
	}
	fail("modifies: unsupported target %s", ExprString(e))
	return nil, nil
}

// ---- builtins ----

func (x *exec) builtin(fr *frame, s *State, b *ssa.Builtin, cc *ssa.CallCommon, args []*Val, resT types.Type, pos token.Pos) *Val {
	intT := types.Typ[types.Int]
	switch b.Name() {
	case "len", "cap":
		v := args[0]
		switch u := cc.Args[0].Type().Underlying().(type) {
		case *types.Slice:
			if b.Name() == "len" {
				return x.mkVal(App("s-len", x.term(v)), intT)
			}
			return x.mkVal(App("s-cap", x.term(v)), intT)
		case *types.Basic:
			return x.mkVal(App("str-len", x.term(v)), intT)
		case *types.Array:
			return x.mkVal(x.c.ILit(u.Len()), intT)
		case *types.Pointer:
			return x.mkVal(x.c.ILit(u.Elem().Underlying().(*types.Array).Len()), intT)
		case *types.Map:
			_, _, card, _, _ := x.mapParts(s, u, x.term(v))
			c := x.c.Let("mlen", x.c.I(), Ite(Eq(x.term(v), "0"), x.c.ILit(0), card))
			x.assume(s, And(x.c.ICmp("<=", x.c.ILit(0), c), x.c.ICmp("<=", c, x.c.ILit(1<<48))))
			return x.mkVal(c, intT)
		case *types.Chan:
			return x.freshVal("chanlen", intT, s)
		}
		fail("len of %s", cc.Args[0].Type())
	case "append":
		return x.appendOp(fr, s, cc, args, pos)
	case "copy":
		return x.copyOp(fr, s, cc, args)
	case "delete":
		m := cc.Args[0].Type().Underlying().(*types.Map)
		k := args[1]
		if isIfaceType(m.Key()) && !isIfaceType(cc.Args[1].Type()) {
			k = x.makeIface(s, k, cc.Args[1].Type(), m.Key())
		}
		x.mapDelete(s, args[0], k, m)
		return &Val{}
	case "print", "println":
		return &Val{}
	case "ssa:wrapnilchk":
		return args[0]
	case "ssa:deferstack":
		return &Val{Typ: resT, T: "0"}
	case "min", "max":
		if len(args) == 2 && isInt(resT) {
			op := "<"
			if b.Name() == "max" {
				op = ">"
			}
			return x.mkVal(Ite(x.c.Cmp(op, x.term(args[0]), x.term(args[1]), resT), x.term(args[0]), x.term(args[1])), resT)
		}
	case "recover":
		return x.mkVal("(mk-iface 0 0)", resT)
	}
	fail("builtin %s", b.Name())
	return nil
}

func (x *exec) appendOp(fr *frame, s *State, cc *ssa.CallCommon, args []*Val, pos token.Pos) *Val {
	st := cc.Args[0].Type()
	sl, ok := st.Underlying().(*types.Slice)
	if !ok {
		fail("append to %s", st)
	}
	a := x.term(args[0])
	I := x.c.I()
	var bl, bref, boff string
	isStr := isStringType(cc.Args[1].Type())
	bT := x.term(args[1])
	if isStr {
		bl = App("str-len", bT)
	} else {
		bl, bref, boff = App("s-len", bT), App("s-ref", bT), App("s-off", bT)
	}
	alen, acap, aref, aoff := App("s-len", a), App("s-cap", a), App("s-ref", a), App("s-off", a)
	nlen := x.c.Let("nlen", I, x.c.IAdd(alen, bl))
	inplace := x.c.Let("inplace", "Bool", And(x.c.ICmp("<=", nlen, acap), Not(Eq(aref, "0"))))
	nref := x.newRef(s, "append")
	ncap := x.c.FreshConst("ncap", I)
	x.assume(s, And(x.c.ICmp("<=", nlen, ncap), x.c.ICmp("<=", ncap, x.c.ILit(1<<48))))
	rref := x.c.Let("aref", "Int", Ite(inplace, aref, nref))
	roff := x.c.Let("aoff", I, Ite(inplace, aoff, x.c.ILit(0)))
	rcap := Ite(inplace, acap, ncap)
	name, sortN := x.elemArr(sl.Elem())
	h := x.h.get(s, name, sortN)
	es := x.c.SortOf(sl.Elem())
	oldArr := Sel(h, aref)
	newArr := x.c.FreshConst("apparr", fmt.Sprintf("(Array %s %s)", I, es))
	// contents: [roff, roff+alen) old elements; [roff+alen, roff+nlen) appended elements; elsewhere as before (in place) / unknown
	j := x.c.Fresh("j")
	var appended string
	if isStr {
		x.c.Fun("str-at", []string{"Str", I}, x.c.SortOf(types.Typ[types.Uint8]))
		appended = App("str-at", bT, x.c.ISub(j, x.c.IAdd(roff, alen)))
	} else {
		appended = Sel(Sel(h, bref), x.c.IAdd(boff, x.c.ISub(j, x.c.IAdd(roff, alen))))
	}
	// single-element appends are expressed without quantifiers
	nStatic := int64(-1)
	if sl2, ok := cc.Args[1].(*ssa.Slice); ok && sl2.Low == nil && sl2.High == nil {
		if a, ok := sl2.X.(*ssa.Alloc); ok {
			if at, ok := a.Type().Underlying().(*types.Pointer).Elem().Underlying().(*types.Array); ok {
				nStatic = at.Len()
			}
		}
	}
	if n := nStatic; n >= 0 && n <= 4 && !isStr {
		// append(s, x1..xn) with n known: quantifier-free. A reallocated backing store is modelled as a
		// copy of the whole old backing array at the same offset (positions outside [off, off+len) of a
		// fresh store are zero in Go and "old contents" here — only visible by re-slicing into spare capacity).
		roff = aoff
		res := oldArr
		for k := int64(0); k < n; k++ {
			res = Sto(res, x.c.EIdx(aoff, x.c.IAdd(alen, x.c.ILit(k))), Sel(Sel(h, bref), x.c.EIdx(boff, x.c.ILit(k))))
		}
		x.assume(s, Eq(bl, x.c.ILit(n)))
		x.h.set(s, name, sortN, Sto(h, rref, res))
	} else {
		inOld := And(x.c.ICmp("<=", roff, j), x.c.ICmp("<", j, x.c.IAdd(roff, alen)))
		inNew := And(x.c.ICmp("<=", x.c.IAdd(roff, alen), j), x.c.ICmp("<", j, x.c.IAdd(roff, nlen)))
		oldAt := Sel(oldArr, x.c.IAdd(aoff, x.c.ISub(j, roff)))
		body := Eq(Sel(newArr, j), Ite(inNew, appended, Ite(inOld, oldAt, Ite(inplace, Sel(oldArr, j), Sel(newArr, j)))))
		x.c.Axiom([]string{newArr}, fmt.Sprintf("(forall ((%s %s)) (! %s :pattern ((select %s %s))))", j, I, body, newArr, j))
		x.h.set(s, name, sortN, Sto(h, rref, newArr))
	}
	x.clearCsprng(s, rref)
	r := x.mkVal(x.c.Let("sl", "Slice", fmt.Sprintf("(mk-slice %s %s %s %s)", rref, roff, nlen, rcap)), st)
	return r
}

func (x *exec) copyOp(fr *frame, s *State, cc *ssa.CallCommon, args []*Val) *Val {
	dt := cc.Args[0].Type().Underlying().(*types.Slice)
	d := x.term(args[0])
	I := x.c.I()
	var sl string
	isStr := isStringType(cc.Args[1].Type())
	src := x.term(args[1])
	if isStr {
		sl = App("str-len", src)
	} else {
		sl = App("s-len", src)
	}
	dl := App("s-len", d)
	n := x.c.Let("ncopy", I, Ite(x.c.ICmp("<", dl, sl), dl, sl))
	name, sortN := x.elemArr(dt.Elem())
	h := x.h.get(s, name, sortN)
	es := x.c.SortOf(dt.Elem())
	dref, doff := App("s-ref", d), App("s-off", d)
	newArr := x.c.FreshConst("cparr", fmt.Sprintf("(Array %s %s)", I, es))
	j := x.c.Fresh("j")
	var from string
	if isStr {
		x.c.Fun("str-at", []string{"Str", I}, es)
		from = App("str-at", src, x.c.ISub(j, doff))
	} else {
		from = Sel(Sel(h, App("s-ref", src)), x.c.IAdd(App("s-off", src), x.c.ISub(j, doff)))
	}
	in := And(x.c.ICmp("<=", doff, j), x.c.ICmp("<", j, x.c.IAdd(doff, n)))
	x.c.Axiom([]string{newArr}, fmt.Sprintf("(forall ((%s %s)) (! (= (select %s %s) %s) :pattern ((select %s %s))))",
		j, I, newArr, j, Ite(in, from, Sel(Sel(h, dref), j)), newArr, j))
	x.h.set(s, name, sortN, Sto(h, dref, newArr))
	x.clearCsprng(s, dref)
	if args[0].Origin != nil {
		x.store(s, args[0].Origin, x.freshVal("arr", args[0].OriginT, s), args[0].OriginT)
	}
	return x.mkVal(n, types.Typ[types.Int])
}

// model gives hand-written semantics to a few library functions.
func (x *exec) model(fr *frame, s *State, key string, args []*Val, resT types.Type, pos token.Pos) (*Val, bool) {
	switch key {
	case "bytes.Equal":
		if x.p.Contracts.ByKey["bytes.Equal"] != nil {
			return nil, false // a contract (assumed, with a quantified postcondition) takes precedence
		}
		x.note("assumed: bytes.Equal is a pure function of the two byte sequences")
		x.c.Fun("bytes-eq", []string{"Slice", "Slice", "(Array Int (Array " + x.c.I() + " " + x.c.SortOf(types.Typ[types.Uint8]) + "))"}, "Bool")
		name, sortN := x.elemArr(types.Typ[types.Uint8])
		return x.mkVal(App("bytes-eq", x.term(args[0]), x.term(args[1]), x.h.get(s, name, sortN)), resT), true
	case "math.Floor", "math.Ceil", "math.Trunc":
		m := map[string]string{"math.Floor": "RTN", "math.Ceil": "RTP", "math.Trunc": "RTZ"}
		return x.mkVal(x.c.Let("f", x.c.SortOf(resT), fmt.Sprintf("(fp.roundToIntegral %s %s)", m[key], x.term(args[0]))), resT), true
	case "math.Abs":
		return x.mkVal("(fp.abs "+x.term(args[0])+")", resT), true
	case "math.Sqrt":
		return x.mkVal("(fp.sqrt RNE "+x.term(args[0])+")", resT), true
	case "math.Pow", "math.Log", "math.Exp", "math.Log2", "math.Log10":
		fn := "uf!" + key
		var sorts []string
		var ts []string
		for _, a := range args {
			sorts = append(sorts, "(_ FloatingPoint 11 53)")
			ts = append(ts, x.term(a))
		}
		x.c.Fun(fn, sorts, "(_ FloatingPoint 11 53)")
		x.note("assumed: %s is an uninterpreted pure function", key)
		return x.mkVal(App(fn, ts...), resT), true
	case "time.Now":
		return x.freshVal("now", resT, s), true
	case "sort.Slice", "sort.SliceStable":
		// sorting permutes the elements of the slice in place; the comparison function only reads (A-SORT).
		// Modelled as: the elements of that backing store become unknown, nothing else changes.
		if len(args) == 2 && args[0].Boxed != nil && isSliceType(args[0].Boxed.Typ) {
			sl := args[0].Boxed.Typ.Underlying().(*types.Slice)
			x.comparatorObligs(fr, s, args[0].Boxed, args[1], pos)
			name, sortN := x.elemArr(sl.Elem())
			h := x.h.get(s, name, sortN)
			fresh := x.c.FreshConst("sorted", fmt.Sprintf("(Array %s %s)", x.c.I(), x.c.SortOf(sl.Elem())))
			x.h.set(s, name, sortN, Sto(h, App("s-ref", x.term(args[0].Boxed)), fresh))
			x.note("A-SORT: %s permutes the slice in place (modelled as unknown contents), its comparison function only reads", key)
			return &Val{}, true
		}
	}
	return nil, false
}

// comparatorObligs: `closure k: comparator [Cxx] name: P` on the function literal handed to sort.Slice. The
// literal is executed twice from the state of the call, on (i, j) and on (j, i), for arbitrary distinct
// in-range indexes; P may mention the literal's parameters, `result` (= less(i, j)) and `swapped`
// (= less(j, i)), and the enclosing function's locals.
func (x *exec) comparatorObligs(fr *frame, s *State, slice, less *Val, pos token.Pos) {
	if less == nil || less.Clo == nil || x.dry != 0 {
		return
	}
	fn := less.Clo.Fn
	pc := x.closureContract(fr, fn)
	if pc == nil || len(pc.Comparator) == 0 || len(fn.Params) != 2 {
		return
	}
	st := s.clone()
	it := types.Typ[types.Int]
	i := x.freshVal("cmp.i", it, st)
	j := x.freshVal("cmp.j", it, st)
	ln := App("s-len", x.term(slice))
	z := x.c.ILit(0)
	x.assume(st, And(x.c.ICmp("<=", z, x.term(i)), x.c.ICmp("<", x.term(i), ln), x.c.ICmp("<=", z, x.term(j)), x.c.ICmp("<", x.term(j), ln), Not(Eq(x.term(i), x.term(j)))))
	// the literal's own `ensures` clauses are not re-checked here
	saved := pc.Ensures
	pc.Ensures = nil
	r1 := x.inline(fr, st, fn, []*Val{i, j}, less.Clo.Bind, pos)
	r2 := x.inline(fr, st, fn, []*Val{j, i}, less.Clo.Bind, pos)
	// sort.Slice permutes the slice it is given and asks less(i, j) about the CURRENT contents: with the
	// elements at i and j exchanged, less(i, j) must answer what less(j, i) answered before. A comparison
	// function that reads some other (un-permuted) slice or copy fails this.
	if slT, ok := slice.Typ.Underlying().(*types.Slice); ok {
		st2 := st.clone()
		en, es := x.elemArr(slT.Elem())
		h := x.h.get(st2, en, es)
		ref := App("s-ref", x.term(slice))
		off := App("s-off", x.term(slice))
		ii, jj := x.c.EIdx(off, x.term(i)), x.c.EIdx(off, x.term(j))
		arr := Sel(h, ref)
		x.h.set(st2, en, es, Sto(h, ref, Sto(Sto(arr, ii, Sel(arr, jj)), jj, Sel(arr, ii))))
		r3 := x.inline(fr, st2, fn, []*Val{i, j}, less.Clo.Bind, pos)
		if r3 != nil && r2 != nil && r3.T != "" && r2.T != "" {
			x.oblig(fr, st2.clone(), fmt.Sprintf("closure%d.comparator", closureOrdinal(fn)), "readsTheSliceBeingSorted", pos, Eq(x.term(r3), x.term(r2)), pc.Comparator[0].Props)
		}
	}
	pc.Ensures = saved
	env := x.frameEnv(fr, st, pos)
	env.vars[fn.Params[0].Name()] = i
	env.vars[fn.Params[1].Name()] = j
	env.vars["result"] = r1
	env.vars["swapped"] = r2
	if x.con != nil {
		pnames := x.con.Params
		if x.con.Recv != "" {
			pnames = append([]string{x.con.Recv}, pnames...)
		}
		for f := fr; f != nil; f = f.parent {
			if f.top {
				for k, n := range pnames {
					if _, taken := env.vars[n]; !taken && k < len(f.params) && env.cell(n) == nil {
						env.vars[n] = f.params[k]
					}
				}
			}
		}
	}
	for k, e := range pc.Comparator {
		if x.cmpSeen == nil {
			x.cmpSeen = map[*Clause]bool{}
		}
		x.cmpSeen[e] = true
		label := e.Label
		if label == "" {
			label = fmt.Sprint(k + 1)
		}
		x.oblig(fr, st.clone(), fmt.Sprintf("closure%d.comparator", closureOrdinal(fn)), label, pos, x.evalBool(e.E, env), e.Props)
	}
}
