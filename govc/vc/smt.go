// Package vc is the verification-condition generator of govc: it turns the
// go/ssa (NaiveForm) of functions in /repo plus their contracts into SMT-LIB2
// obligations.
package vc

import (
	"fmt"
	"sort"
	"strings"
)

// Mode selects how Go machine integers are modelled.
type Mode int

const (
	ModeBV  Mode = iota // exact bit-vectors
	ModeInt             // mathematical Int + overflow obligations
)

type declKind int

const (
	kSort declKind = iota // raw sort / datatype declaration
	kConst                // declare-const / declare-fun
	kDef                  // define-fun / define-fun-rec
	kAxiom                // assert
)

// Decl is one top-level SMT-LIB command with its dependencies.
type Decl struct {
	Kind declKind
	Name string
	Text string   // complete command text
	Deps []string // symbols this decl mentions
	Keys []string // for axioms: included when any key is in the cone
	seq  int
}

// Ctx accumulates the declarations for one function under proof.
type Ctx struct {
	Mode    Mode
	decls   []*Decl
	idx     map[string]*Decl
	n       int
	strLits map[string]string
	tags    map[string]int
	structs map[string]*structInfo
	// symbols that were introduced as assumptions (recorded for evidence)
	Assumptions map[string]bool
	NoLet       int // >0 while terms may contain bound variables: no top-level definitions
}

type ctxPad struct {
}

func NewCtx(m Mode) *Ctx {
	c := &Ctx{Mode: m, idx: map[string]*Decl{}, strLits: map[string]string{}, tags: map[string]int{},
		structs: map[string]*structInfo{}, Assumptions: map[string]bool{}}
	c.prelude()
	return c
}

func (c *Ctx) I() string {
	if c.Mode == ModeBV {
		return "(_ BitVec 64)"
	}
	return "Int"
}

func (c *Ctx) prelude() {
	I := c.I()
	c.raw(kSort, "Slice", fmt.Sprintf("(declare-datatypes ((Slice 0)) (((mk-slice (s-ref Int) (s-off %s) (s-len %s) (s-cap %s)))))", I, I, I), nil)
	c.raw(kSort, "Iface", "(declare-datatypes ((Iface 0)) (((mk-iface (i-tag Int) (i-ref Int)))))", nil)
	c.raw(kSort, "Str", "(declare-sort Str 0)", nil)
	c.raw(kConst, "str-len", fmt.Sprintf("(declare-fun str-len (Str) %s)", I), []string{"Str"})
	// selectors/constructors map to their sort decl for cone computation
	for _, s := range []string{"mk-slice", "s-ref", "s-off", "s-len", "s-cap"} {
		c.idx[s] = c.idx["Slice"]
	}
	for _, s := range []string{"mk-iface", "i-tag", "i-ref"} {
		c.idx[s] = c.idx["Iface"]
	}
}

func (c *Ctx) raw(k declKind, name, text string, deps []string) *Decl {
	if d, ok := c.idx[name]; ok {
		return d
	}
	d := &Decl{Kind: k, Name: name, Text: text, Deps: deps, seq: len(c.decls)}
	c.decls = append(c.decls, d)
	c.idx[name] = d
	return d
}

func (c *Ctx) has(name string) bool { _, ok := c.idx[name]; return ok }

// Mark is a position in the declaration sequence.
func (c *Ctx) Mark() int { return len(c.decls) }

// DependsOnAfter: does the term mention, directly or through definitions, a constant declared at or after
// the mark? Heap arrays of the given epoch that are first touched later (`name@epoch`) denote the array as
// it was when that epoch began, and count as declared before.
func (c *Ctx) DependsOnAfter(term string, mark int, epoch string) bool {
	seen := map[string]bool{}
	var visit func(syms []string) bool
	visit = func(syms []string) bool {
		for _, sym := range syms {
			if seen[sym] {
				continue
			}
			seen[sym] = true
			d, ok := c.idx[sym]
			if !ok || d.seq < mark {
				continue
			}
			switch d.Kind {
			case kDef:
				if visit(d.Deps) {
					return true
				}
			case kConst:
				if strings.HasSuffix(sym, "@"+epoch) {
					continue
				}
				if strings.HasPrefix(d.Text, "(declare-const") || strings.Contains(d.Text, " () ") {
					return true
				}
			}
		}
		return false
	}
	return visit(symbolsIn(term))
}

// Fresh returns a fresh symbol with the given stem.
func (c *Ctx) Fresh(stem string) string {
	c.n++
	return fmt.Sprintf("%s!%d", sanitize(stem), c.n)
}

// Const declares an unconstrained constant.
func (c *Ctx) Const(name, sort string) string {
	c.raw(kConst, name, fmt.Sprintf("(declare-const %s %s)", name, sort), symbolsIn(sort))
	return name
}

// FreshConst declares a fresh unconstrained constant.
func (c *Ctx) FreshConst(stem, sort string) string { return c.Const(c.Fresh(stem), sort) }

// Fun declares an uninterpreted function.
func (c *Ctx) Fun(name string, args []string, res string) string {
	c.raw(kConst, name, fmt.Sprintf("(declare-fun %s (%s) %s)", name, strings.Join(args, " "), res), symbolsIn(strings.Join(args, " ")+" "+res))
	return name
}

// Define introduces name := body (a nullary define-fun) and returns name.
func (c *Ctx) Define(name, sort, body string) string {
	c.raw(kDef, name, fmt.Sprintf("(define-fun %s () %s %s)", name, sort, body), symbolsIn(sort+" "+body))
	return name
}

// Let gives a term a short name when it is large, to keep sharing.
func (c *Ctx) Let(stem, sort, body string) string {
	if len(body) < 48 || c.NoLet > 0 {
		return body
	}
	return c.Define(c.Fresh(stem), sort, body)
}

// DefineFun introduces a (possibly recursive) function definition.
func (c *Ctx) DefineFun(name string, params [][2]string, res, body string, rec bool) {
	var ps []string
	bound := map[string]bool{}
	for _, p := range params {
		ps = append(ps, fmt.Sprintf("(%s %s)", p[0], p[1]))
		bound[p[0]] = true
	}
	kw := "define-fun"
	if rec {
		kw = "define-fun-rec"
	}
	var deps []string
	for _, s := range symbolsIn(strings.Join(ps, " ") + " " + res + " " + body) {
		if !bound[s] && s != name {
			deps = append(deps, s)
		}
	}
	c.raw(kDef, name, fmt.Sprintf("(%s %s (%s) %s %s)", kw, name, strings.Join(ps, " "), res, body), deps)
}

// Axiom adds a global assertion, included in a query when one of keys is used.
func (c *Ctx) Axiom(keys []string, body string) {
	name := c.Fresh("ax")
	d := &Decl{Kind: kAxiom, Name: name, Text: fmt.Sprintf("(assert %s)", body), Deps: symbolsIn(body), Keys: keys, seq: len(c.decls)}
	c.decls = append(c.decls, d)
	c.idx[name] = d
}

func isSymChar(b byte) bool {
	return b >= 'a' && b <= 'z' || b >= 'A' && b <= 'Z' || b >= '0' && b <= '9' || strings.IndexByte("~!@$%^&*_-+=<>.?/", b) >= 0
}

// symbolsIn extracts candidate symbol tokens of a term.
func symbolsIn(t string) []string {
	var out []string
	seen := map[string]bool{}
	i := 0
	for i < len(t) {
		if t[i] == '"' { // string literal
			i++
			for i < len(t) && t[i] != '"' {
				i++
			}
			i++
			continue
		}
		if isSymChar(t[i]) {
			j := i
			for j < len(t) && isSymChar(t[j]) {
				j++
			}
			s := t[i:j]
			if !seen[s] && !(s[0] >= '0' && s[0] <= '9') && s[0] != '#' {
				seen[s] = true
				out = append(out, s)
			}
			i = j
			continue
		}
		if t[i] == '#' { // #x.. / #b..
			j := i + 1
			for j < len(t) && isSymChar(t[j]) {
				j++
			}
			i = j
			continue
		}
		i++
	}
	return out
}

func sanitize(s string) string {
	var b strings.Builder
	for i := 0; i < len(s); i++ {
		ch := s[i]
		switch {
		case ch >= 'a' && ch <= 'z', ch >= 'A' && ch <= 'Z', ch >= '0' && ch <= '9', ch == '_', ch == '.', ch == '!', ch == '$':
			b.WriteByte(ch)
		case ch == '*':
			b.WriteString("ptr.")
		case ch == '/':
			b.WriteByte('.')
		case ch == ' ', ch == '(', ch == ')':
		default:
			b.WriteByte('_')
		}
	}
	return b.String()
}

// Query renders a complete SMT-LIB script asserting the given formulas,
// restricted to the cone of influence of their symbols.
func (c *Ctx) Query(asserts []string, wantModel bool) string {
	need := map[string]bool{}
	var work []string
	add := func(s string) {
		if d, ok := c.idx[s]; ok && !need[d.Name] {
			need[d.Name] = true
			work = append(work, d.Name)
		}
	}
	for _, a := range asserts {
		for _, s := range symbolsIn(a) {
			add(s)
		}
	}
	for {
		for len(work) > 0 {
			d := c.idx[work[len(work)-1]]
			work = work[:len(work)-1]
			for _, s := range d.Deps {
				add(s)
			}
		}
		// axioms keyed by needed symbols
		progress := false
		for _, d := range c.decls {
			if d.Kind != kAxiom || need[d.Name] {
				continue
			}
			for _, k := range d.Keys {
				if kd, ok := c.idx[k]; ok && need[kd.Name] {
					need[d.Name] = true
					work = append(work, d.Name)
					progress = true
					break
				}
			}
		}
		if !progress {
			break
		}
	}
	var b strings.Builder
	b.WriteString("(set-option :produce-models true)\n(set-logic ALL)\n")
	var ds []*Decl
	for n := range need {
		ds = append(ds, c.idx[n])
	}
	sort.Slice(ds, func(i, j int) bool { return ds[i].seq < ds[j].seq })
	var lits []string
	for _, d := range ds {
		b.WriteString(d.Text)
		b.WriteByte('\n')
		if strings.HasPrefix(d.Name, "str!") {
			lits = append(lits, d.Name)
		}
	}
	if len(lits) > 1 {
		b.WriteString("(assert (distinct " + strings.Join(lits, " ") + "))\n")
	}
	for _, a := range asserts {
		b.WriteString("(assert " + a + ")\n")
	}
	b.WriteString("(check-sat)\n")
	if wantModel {
		b.WriteString("(get-model)\n")
	}
	return b.String()
}

// ---- term helpers ----

func And(ts ...string) string {
	var xs []string
	for _, t := range ts {
		if t == "true" || t == "" {
			continue
		}
		if t == "false" {
			return "false"
		}
		xs = append(xs, t)
	}
	switch len(xs) {
	case 0:
		return "true"
	case 1:
		return xs[0]
	}
	return "(and " + strings.Join(xs, " ") + ")"
}

func Or(ts ...string) string {
	var xs []string
	for _, t := range ts {
		if t == "false" || t == "" {
			continue
		}
		if t == "true" {
			return "true"
		}
		xs = append(xs, t)
	}
	switch len(xs) {
	case 0:
		return "false"
	case 1:
		return xs[0]
	}
	return "(or " + strings.Join(xs, " ") + ")"
}

func Not(t string) string {
	switch t {
	case "true":
		return "false"
	case "false":
		return "true"
	}
	if strings.HasPrefix(t, "(not ") {
		return t[5 : len(t)-1]
	}
	return "(not " + t + ")"
}

func Imp(a, b string) string {
	if a == "true" {
		return b
	}
	if a == "false" || b == "true" {
		return "true"
	}
	return "(=> " + a + " " + b + ")"
}

func Eq(a, b string) string {
	if a == b {
		return "true"
	}
	return "(= " + a + " " + b + ")"
}

func Ite(c, a, b string) string {
	if c == "true" || a == b {
		return a
	}
	if c == "false" {
		return b
	}
	return "(ite " + c + " " + a + " " + b + ")"
}

func Sel(arr, i string) string      { return "(select " + arr + " " + i + ")" }
func Sto(arr, i, v string) string   { return "(store " + arr + " " + i + " " + v + ")" }
func App(f string, a ...string) string {
	if len(a) == 0 {
		return f
	}
	return "(" + f + " " + strings.Join(a, " ") + ")"
}
