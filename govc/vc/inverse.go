package vc

import (
	"fmt"
	"go/token"
	"go/types"
	"sort"
	"strings"

	"golang.org/x/tools/go/ssa"
)

const historyAppendKey = "(*" + modulePrefix + "utils.History).Append"

// appendSite handles a call History.Append(height, execute, rollback): nothing runs now,
// but the pair must be an inverse pair from the state in which it is appended:
// running execute and then rollback restores every location that existed before.
func (x *exec) appendSite(fr *frame, s *State, args []*Val, pos token.Pos) {
	if len(args) != 4 || args[2].Clo == nil || args[3].Clo == nil {
		if x.claims("inverse") {
			x.oblig(fr, s.clone(), "inverse", "closures-not-literal", pos, "false", nil)
		}
		return
	}
	if !x.claims("inverse") {
		return
	}
	ex, rb := args[2].Clo, args[3].Clo
	label := fmt.Sprintf("closure%d/closure%d", closureOrdinal(ex.Fn), closureOrdinal(rb.Fn))
	s0 := s.clone()
	s1 := s.clone()
	saveClaims := x.suppress
	x.suppress = true // implicit-panic obligations inside the stored closures are not part of this claim
	x.recording, x.recStores = true, nil
	x.inline(fr, s1, ex.Fn, nil, ex.Bind, pos)
	x.recording = false
	afterExec := s1.clone()
	x.inline(fr, s1, rb.Fn, nil, rb.Bind, pos)
	x.suppress = saveClaims
	_ = afterExec
	if s1.reach == "false" {
		return
	}
	if s1.epoch != s0.epoch {
		x.oblig(fr, s1.clone(), "inverse", label+":unknown-call", pos, "false", nil)
		return
	}
	x.pairPrivate = x.privateCells(ex, rb)
	x.compareStates(fr, s0, afterExec, s1, "inverse", label, pos)
	x.pairPrivate = nil
}

// privateCells: variables of the enclosing function that only this pair's two closures capture (and that
// the function itself only initialises) are the pair's own bookkeeping — `created := false` set by execute
// and read by rollback. Nothing else can observe them, so they are not part of the state that must be restored.
func (x *exec) privateCells(ex, rb *closure) []string {
	var out []string
	seen := map[*ssa.Alloc]bool{}
	for _, cl := range []*closure{ex, rb} {
		if cl.Instr == nil {
			continue
		}
		for i, b := range cl.Instr.Bindings {
			a, ok := b.(*ssa.Alloc)
			if !ok || seen[a] || i >= len(cl.Bind) {
				continue
			}
			seen[a] = true
			private := true
			for _, ref := range *a.Referrers() {
				switch r := ref.(type) {
				case *ssa.MakeClosure:
					if r != ex.Instr && r != rb.Instr {
						private = false
					}
				case *ssa.Store:
					if r.Addr != a {
						private = false // the address itself is stored somewhere
					}
				case *ssa.DebugRef:
				default:
					private = false
				}
			}
			if private && cl.Bind[i] != nil && cl.Bind[i].L != nil && cl.Bind[i].L.K == LObj {
				out = append(out, cl.Bind[i].L.Ref)
			}
		}
	}
	return out
}

// obligRelaxed records an obligation with a fallback hypothesis (a named assumption class).
func (x *exec) obligRelaxed(fr *frame, s *State, kind, label string, pos token.Pos, goal, relax, relaxName string) {
	n := len(x.obligs)
	x.oblig(fr, s, kind, label, pos, goal, nil)
	if relax != "" && len(x.obligs) > n {
		o := x.obligs[len(x.obligs)-1]
		o.Relax = relax
		o.RelaxName = relaxName
	}
}

// compareStates emits one obligation per heap array that may differ between s0 and s1:
// every location of an object alive in s0 has the same abstract value in s1.
func (x *exec) compareStates(fr *frame, s0, mid, s1 *State, kind, label string, pos token.Pos) {
	alive0 := x.h.get(s0, "alive", "(Array Int Bool)")
	var names []string
	for n := range s1.heap {
		names = append(names, n)
	}
	sort.Strings(names)
	changedE := map[string]bool{}
	for _, n := range names {
		if strings.HasPrefix(n, "E!") && x.h.get(s0, n, x.h.sorts[n]) != s1.heap[n] {
			changedE[n] = true
		}
	}
	for _, n := range names {
		if frameExempt(n) || strings.HasPrefix(n, "E!") || strings.HasPrefix(n, "Mn!") || strings.HasPrefix(n, "Mv!") {
			continue
		}
		sortN := x.h.sorts[n]
		t0 := x.h.get(s0, n, sortN)
		t1 := s1.heap[n]
		r := x.c.FreshConst("inv.r", "Int")
		var goal string
		relax, relaxName := "", ""
		wfHyp := "true"
		switch {
		case strings.HasPrefix(n, "Md!"):
			// maps: same domain, same values on the domain, same cardinality
			suffix := strings.TrimPrefix(n, "Md!")
			vn, cn := "Mv!"+suffix, "Mn!"+suffix
			v0, v1 := x.h.get(s0, vn, x.h.sorts[vn]), x.h.get(s1, vn, x.h.sorts[vn])
			c0, c1 := x.h.get(s0, cn, x.h.sorts[cn]), x.h.get(s1, cn, x.h.sorts[cn])
			if t0 == t1 && v0 == v1 && c0 == c1 {
				continue
			}
			ks := keySortOf(x.h.sorts[n])
			k := x.c.FreshConst("inv.k", ks)
			if ks == "Str" {
				// a key is a well-formed string
				wfHyp = And(x.c.ICmp("<=", x.c.ILit(0), App("str-len", k)), x.c.ICmp("<=", App("str-len", k), x.c.ILit(1<<48)))
			}
			goal = And(Eq(Sel(Sel(t1, r), k), Sel(Sel(t0, r), k)),
				Imp(Sel(Sel(t0, r), k), Eq(Sel(Sel(v1, r), k), Sel(Sel(v0, r), k))),
				Eq(Sel(c1, r), Sel(c0, r)))
			if mid != nil {
				// A-FRESHKEY: a key that execute assigns (m[k] = v executed in the execute closure), leaves in the map
				// and rollback deletes was absent when the pair was appended
				tm := x.h.get(mid, n, sortN)
				kq := x.c.Fresh("fk")
				var stored []string
				for _, st := range x.recStores {
					if st.name == n {
						stored = append(stored, And(st.cond, Eq(r, st.ref), Eq(kq, st.key)))
					}
				}
				if len(stored) > 0 {
					relax = fmt.Sprintf("(forall ((%s %s)) (! (=> (and (select (select %s %s) %s) (not (select (select %s %s) %s)) %s) (not (select (select %s %s) %s))) :pattern ((select (select %s %s) %s))))",
						kq, ks, tm, r, kq, t1, r, kq, Or(stored...), t0, r, kq, t0, r, kq)
					relaxName = "A-FRESHKEY"
				}
			}
			// A-OWN: a map held in a struct field is referenced through that field only. A map that its owning
			// field dropped (the rollback installed a copy with the same contents — the field's own obligation
			// compares contents) is garbage: its contents need not be restored.
			var own []string
			for _, fn := range names {
				m, ok := x.mapField[fn]
				if !ok {
					continue
				}
				if dn, _, _, _, _ := x.mapArrs(m); dn != n {
					continue
				}
				f0, f1 := x.h.get(s0, fn, x.h.sorts[fn]), s1.heap[fn]
				if f0 == f1 {
					continue
				}
				o := x.c.Fresh("own")
				own = append(own, fmt.Sprintf("(forall ((%s Int)) (! (=> (= (select %s %s) %s) (= (select %s %s) %s)) :pattern ((select %s %s))))",
					o, f0, o, r, f1, o, r, f0, o))
			}
			if len(own) > 0 {
				if relax == "" {
					relax, relaxName = And(own...), "A-OWN"
				} else {
					relax, relaxName = And(append([]string{relax}, own...)...), relaxName+"+A-OWN"
				}
			}
		case valueSortOf(sortN) == "Slice":
			// slices: same length and same elements (the backing store may have been reallocated)
			es := x.sliceElemArrays(n)
			if t0 == t1 {
				touched := false
				for _, e := range es {
					if changedE[e] {
						touched = true
					}
				}
				if !touched {
					continue
				}
			}
			a0, a1 := Sel(t0, r), Sel(t1, r)
			goal = Eq(App("s-len", a1), App("s-len", a0))
			// heap well-formedness: a slice stored in a live object points to a live (or nil) backing store
			wfHyp = Or(Eq(App("s-ref", a0), "0"), Sel(alive0, App("s-ref", a0)))
			j := x.c.FreshConst("inv.j", x.c.I())
			for _, e := range es {
				if _, ok := s1.heap[e]; !ok {
					continue
				}
				e0, e1 := x.h.get(s0, e, x.h.sorts[e]), s1.heap[e]
				in := And(x.c.ICmp("<=", x.c.ILit(0), j), x.c.ICmp("<", j, App("s-len", a0)))
				goal = And(goal, Imp(in, Eq(Sel(Sel(e1, App("s-ref", a1)), x.c.EIdx(App("s-off", a1), j)), Sel(Sel(e0, App("s-ref", a0)), x.c.EIdx(App("s-off", a0), j)))))
			}
		case strings.HasPrefix(n, "G!"):
			if t0 == t1 {
				continue
			}
			x.oblig(fr, s1.clone(), kind, label+":"+shortHeapName(n), pos, Eq(t1, t0), nil)
			continue
		default:
			if t0 == t1 {
				continue
			}
			goal = Eq(Sel(t1, r), Sel(t0, r))
			if m, ok := x.mapField[n]; ok {
				// a field holding a map: the same map, or a map with the same contents (copy-and-restore)
				m0, m1 := Sel(t0, r), Sel(t1, r)
				dn, vn, cn, ks, _ := x.mapArrs(m)
				ds, vs, cs := x.h.sorts[dn], x.h.sorts[vn], x.h.sorts[cn]
				if ds != "" && vs != "" && cs != "" {
					k := x.c.FreshConst("inv.k", ks)
					kwf := x.wf(k, m.Key())
					// a nil map and an empty map are the same abstract value (they read, range and serialise alike)
					d0 := And(Not(Eq(m0, "0")), Sel(Sel(x.h.get(s0, dn, ds), m0), k))
					d1 := And(Not(Eq(m1, "0")), Sel(Sel(x.h.get(s1, dn, ds), m1), k))
					v0, v1 := Sel(Sel(x.h.get(s0, vn, vs), m0), k), Sel(Sel(x.h.get(s1, vn, vs), m1), k)
					n0 := Ite(Eq(m0, "0"), x.c.ILit(0), Sel(x.h.get(s0, cn, cs), m0))
					n1 := Ite(Eq(m1, "0"), x.c.ILit(0), Sel(x.h.get(s1, cn, cs), m1))
					// (the cardinalities are not compared: equal domains for an arbitrary key are equal sets)
					_, _ = n0, n1
					same := And(Eq(d1, d0), Imp(d0, Eq(v1, v0)))
					goal = Or(goal, Imp(kwf, same))
				}
				wfHyp = Or(Eq(m0, "0"), Sel(alive0, m0))
			} else if valueSortOf(sortN) == "Int" && strings.HasPrefix(n, "F!") && x.c.Mode == ModeBV {
				wfHyp = Or(Eq(Sel(t0, r), "0"), Sel(alive0, Sel(t0, r)))
			}
		}
		if strings.HasPrefix(n, "P!") {
			for _, pc := range x.pairPrivate {
				wfHyp = And(wfHyp, Not(Eq(r, pc)))
			}
		}
		x.obligRelaxed(fr, s1.clone(), kind, label+":"+shortHeapName(n), pos, Imp(And(Sel(alive0, r), wfHyp), goal), relax, relaxName)
	}
	// globals
	var gs []string
	gm := map[string][2]*Val{}
	for g, v1 := range s1.globals {
		v0, ok := s0.globals[g]
		if ok && v0 == v1 {
			continue
		}
		if !ok {
			v0 = x.load(s0, &Loc{K: LGlobal, Global: g}, g.Type().Underlying().(*types.Pointer).Elem())
		}
		gs = append(gs, g.String())
		gm[g.String()] = [2]*Val{v0, v1}
	}
	sort.Strings(gs)
	for _, g := range gs {
		v := gm[g]
		if v[0].T == "" || v[1].T == "" {
			continue
		}
		x.oblig(fr, s1.clone(), kind, label+":global."+lastName(g), pos, Eq(v[1].T, v[0].T), nil)
	}
}

// valueSortOf returns V for a heap array of sort (Array Int V).
func valueSortOf(arrSort string) string {
	const p = "(Array Int "
	if strings.HasPrefix(arrSort, p) {
		return strings.TrimSuffix(arrSort[len(p):], ")")
	}
	return ""
}

// keySortOf returns K for a map-domain array of sort (Array Int (Array K Bool)).
func keySortOf(arrSort string) string {
	inner := valueSortOf(arrSort) // (Array K Bool)
	inner = strings.TrimPrefix(inner, "(Array ")
	inner = strings.TrimSuffix(inner, " Bool)")
	return inner
}

// sliceElemArrays lists the element arrays a slice-valued heap array may point into.
// The element sort is not recorded in the Slice sort, so it is recovered from the
// Go type that created the heap array.
func (x *exec) sliceElemArrays(n string) []string {
	if e, ok := x.sliceElem[n]; ok {
		return []string{e}
	}
	return nil
}
