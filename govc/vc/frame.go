package vc

import (
	"fmt"
	"go/types"
	"sort"
	"strings"
)

// target is one location a contract allows to change, per heap array.
type target struct {
	ref string
	idx string // optional element index (E arrays)
}

type frameInfo struct {
	star    bool
	allowed map[string][]target
	alive0  string
	entry   *State
}

// computeFrame evaluates the modifies clause of the function under proof in its entry state.
func (x *exec) computeFrame(entry *State, env *Env) *frameInfo {
	con := x.con
	fi := &frameInfo{allowed: map[string][]target{}, entry: entry}
	for _, m := range con.Modifies {
		if m.Text == "*" || m.Text == "$client" {
			fi.star = true
			return fi
		}
	}
	pre := *env
	pre.st = entry
	for _, m := range con.Modifies {
		text := m.Text
		switch {
		case strings.HasPrefix(text, "csprng("), strings.HasPrefix(text, "bigval("):
			// provenance flags / big.Int values are ghost state: exempt from the frame check
		case strings.HasSuffix(text, "[*]"):
			e, err := ParseExpr(strings.TrimSuffix(text, "[*]"))
			if err != nil {
				fail("modifies %s: %v", text, err)
			}
			v := x.eval(e, &pre, nil)
			switch u := v.Typ.Underlying().(type) {
			case *types.Slice:
				name, _ := x.elemArr(u.Elem())
				fi.allowed[name] = append(fi.allowed[name], target{ref: App("s-ref", x.term(v))})
			case *types.Map:
				dn, vn, cn, _, _ := x.mapArrs(u)
				for _, n := range []string{dn, vn, cn} {
					fi.allowed[n] = append(fi.allowed[n], target{ref: x.term(v)})
				}
			default:
				fail("modifies %s: not a slice or map", text)
			}
		case strings.HasSuffix(text, ".*"):
			e, err := ParseExpr(strings.TrimSuffix(text, ".*"))
			if err != nil {
				fail("modifies %s: %v", text, err)
			}
			v := x.eval(e, &pre, nil)
			p, ok := v.Typ.Underlying().(*types.Pointer)
			if !ok || v.L == nil {
				fail("modifies %s: not a pointer", text)
			}
			x.allFields(fi, v.L, p.Elem())
		default:
			l, t := x.evalLoc(m.E, &pre)
			switch l.K {
			case LFieldHeap:
				n, _ := x.fieldArr(l.T, l.Field)
				fi.allowed[n] = append(fi.allowed[n], target{ref: l.Ref})
			case LElem:
				n, _ := x.elemArr(l.T)
				fi.allowed[n] = append(fi.allowed[n], target{ref: App("s-ref", l.Slice), idx: x.c.EIdx(App("s-off", l.Slice), l.Idx)})
			case LObj:
				x.allFields(fi, l, t)
			default:
				fail("modifies %s: unsupported location", text)
			}
		}
	}
	fi.alive0 = x.h.get(entry, "alive", "(Array Int Bool)")
	return fi
}

func (x *exec) allFields(fi *frameInfo, l *Loc, t types.Type) {
	if st, ok := t.Underlying().(*types.Struct); ok {
		for i := 0; i < st.NumFields(); i++ {
			fl := x.fieldLoc(l, t, i)
			if fl.K == LFieldHeap {
				n, _ := x.fieldArr(fl.T, fl.Field)
				fi.allowed[n] = append(fi.allowed[n], target{ref: fl.Ref})
			} else if fl.K == LObj {
				x.allFields(fi, fl, fl.T)
			}
		}
		return
	}
	n, _ := x.ptrArr(t)
	fi.allowed[n] = append(fi.allowed[n], target{ref: l.Ref})
}

// frameBody: "location (r[, j]) of heap array n is unchanged between t0 and t1 unless allowed".
func (x *exec) frameBody(fi *frameInfo, n, t0, t1, r, j string) string {
	var excl []string
	for _, tg := range fi.allowed[n] {
		if tg.idx == "" {
			excl = append(excl, Not(Eq(r, tg.ref)))
		}
	}
	excl = append(excl, Sel(fi.alive0, r))
	if strings.HasPrefix(n, "E!") {
		var ex2 []string
		for _, tg := range fi.allowed[n] {
			if tg.idx != "" {
				ex2 = append(ex2, Not(And(Eq(r, tg.ref), Eq(j, tg.idx))))
			}
		}
		return Imp(And(append(excl, ex2...)...), Eq(Sel(Sel(t1, r), j), Sel(Sel(t0, r), j)))
	}
	return Imp(And(excl...), Eq(Sel(t1, r), Sel(t0, r)))
}

func frameExempt(n string) bool {
	return n == "alive" || n == "gv" || strings.HasPrefix(n, "G!") || strings.HasPrefix(n, "ghost!")
}

const csprngArr = "ghost!csprng"

// bigvalArr maps a *big.Int to the mathematical integer it holds (ghost field; big.Int methods are
// used through assumed contracts over it).
const bigvalArr = "ghost!bigval"

// clearCsprng: a buffer that the program writes into element-wise (or copies into) is no longer
// known to hold bytes from the secure random source.
func (x *exec) clearCsprng(s *State, ref string) {
	if _, used := s.heap[csprngArr]; !used && !(x.con != nil && x.con.Claims["csprng"]) {
		return
	}
	h := x.h.get(s, csprngArr, "(Array Int Bool)")
	x.h.set(s, csprngArr, "(Array Int Bool)", Sto(h, ref, "false"))
}

// refOf returns the object identity a provenance flag is attached to.
func (x *exec) refOf(v *Val) string {
	if isSliceType(v.Typ) {
		return App("s-ref", x.term(v))
	}
	return x.term(v)
}

// frameCheck proves at function exit that only the declared locations changed.
func (x *exec) frameCheck(fr *frame, fi *frameInfo, exit *State) {
	if fi == nil || fi.star {
		return
	}
	if exit.epoch != fi.entry.epoch {
		x.oblig(fr, exit.clone(), "frame", "unknown-call", x.fnPos, "false", nil)
		return
	}
	var names []string
	for n := range exit.heap {
		names = append(names, n)
	}
	sort.Strings(names)
	for _, n := range names {
		if strings.HasPrefix(n, "G!") {
			// package-level variables cannot be listed in modifies: they must be unchanged
			t0 := x.h.get(fi.entry, n, x.h.sorts[n])
			if t1 := exit.heap[n]; t0 != t1 {
				x.oblig(fr, exit.clone(), "frame", shortHeapName(n), x.fnPos, Eq(t1, t0), nil)
			}
			continue
		}
		if frameExempt(n) {
			continue
		}
		sortN := x.h.sorts[n]
		t0 := x.h.get(fi.entry, n, sortN)
		t1 := exit.heap[n]
		if t0 == t1 {
			continue
		}
		r := x.c.FreshConst("fr.r", "Int")
		j := x.c.FreshConst("fr.j", x.c.I())
		x.oblig(fr, exit.clone(), "frame", shortHeapName(n), x.fnPos, x.frameBody(fi, n, t0, t1, r, j), nil)
	}
}

// frameQuant is the quantified frame fact used as an automatic loop invariant.
func (x *exec) frameQuant(fi *frameInfo, n, t0, t1 string) string {
	r := x.c.Fresh("fr.r")
	j := x.c.Fresh("fr.j")
	body := x.frameBody(fi, n, t0, t1, r, j)
	if strings.HasPrefix(n, "E!") {
		return fmt.Sprintf("(forall ((%s Int) (%s %s)) (! %s :pattern ((select (select %s %s) %s))))", r, j, x.c.I(), body, t1, r, j)
	}
	return fmt.Sprintf("(forall ((%s Int)) (! %s :pattern ((select %s %s))))", r, body, t1, r)
}
