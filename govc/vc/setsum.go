package vc

import (
	"fmt"
	"go/types"
)

// setSum evaluates `setsum(S, m [, "Field"])`: the exact (mathematical) sum of m[k] (or
// m[k].Field) over the keys k of the set S, where S is `$visited` (keys visited so far by the
// enclosing range-over-map loop) or `dom(m)`. It is an uninterpreted function axiomatised by
//   setsum(∅) = 0      and      k ∉ S  ⇒  setsum(S ∪ {k}) = setsum(S) + m[k]
// which is independent of the iteration order. Only available with `arith int`.
func (x *exec) setSum(n *ECall, env *Env) *Val {
	if x.c.Mode != ModeInt {
		fail("spec: setsum needs `arith int`")
	}
	if len(n.Args) < 2 || len(n.Args) > 3 {
		fail("spec: setsum(S, m [, \"Field\"])")
	}
	mv := x.ev(n.Args[1], env, nil)
	m, ok := mv.Typ.Underlying().(*types.Map)
	if !ok {
		fail("spec: setsum: second argument must be a map")
	}
	ks, vs := x.c.SortOf(m.Key()), x.c.SortOf(m.Elem())
	setSort := fmt.Sprintf("(Array %s Bool)", ks)
	valSort := fmt.Sprintf("(Array %s %s)", ks, vs)
	// the set
	var set string
	switch a := n.Args[0].(type) {
	case *EId:
		if a.Name != "$visited" {
			fail("spec: setsum: first argument must be $visited or dom(m)")
		}
		if env.visited == "" {
			fail("spec: $visited is only available in invariants of a range-over-map loop")
		}
		set = env.visited
	case *ECall:
		id, ok := a.Fun.(*EId)
		if !ok || id.Name != "dom" || len(a.Args) != 1 {
			fail("spec: setsum: first argument must be $visited or dom(m)")
		}
		dv := x.ev(a.Args[0], env, nil)
		dm, ok := dv.Typ.Underlying().(*types.Map)
		if !ok {
			fail("spec: dom() of a non-map")
		}
		dom, _, _, _, _ := x.mapParts(env.st, dm, x.term(dv))
		set = Ite(Eq(x.term(dv), "0"), fmt.Sprintf("((as const %s) false)", setSort), dom)
	default:
		fail("spec: setsum: first argument must be $visited or dom(m)")
	}
	_, vals, _, _, _ := x.mapParts(env.st, m, x.term(mv))
	// projection
	field := ""
	rt := m.Elem()
	proj := func(v string) string { return v }
	if len(n.Args) == 3 {
		lit, ok := n.Args[2].(*ELit)
		if !ok || lit.Kind != "string" {
			fail("spec: setsum: field must be a string literal")
		}
		field = lit.Val
		st, ok := m.Elem().Underlying().(*types.Struct)
		if !ok {
			fail("spec: setsum: map element is not a struct")
		}
		si := x.c.structOf(m.Elem())
		idx := -1
		for i := 0; i < st.NumFields(); i++ {
			if st.Field(i).Name() == field {
				idx = i
			}
		}
		if idx < 0 {
			fail("spec: setsum: no field %s", field)
		}
		rt = si.ftypes[idx]
		sel := si.fields[idx]
		proj = func(v string) string { return App(sel, v) }
	}
	if !isInt(rt) {
		fail("spec: setsum over non-integer values")
	}
	fn := "setsum!" + sortKey(ks) + "!" + sortKey(vs) + "!" + sanitize(field)
	if !x.c.has(fn) {
		x.c.Fun(fn, []string{setSort, valSort}, "Int")
		x.c.Axiom([]string{fn}, fmt.Sprintf("(forall ((v %s)) (! (= (%s ((as const %s) false) v) 0) :pattern ((%s ((as const %s) false) v))))", valSort, fn, setSort, fn, setSort))
		x.c.Axiom([]string{fn}, fmt.Sprintf("(forall ((d %s) (v %s) (k %s)) (! (=> (not (select d k)) (= (%s (store d k true) v) (+ (%s d v) %s))) :pattern ((%s (store d k true) v))))",
			setSort, valSort, ks, fn, fn, proj("(select v k)"), fn))
		x.note("setsum: exact order-independent sum over a finite key set (axioms: empty set and insertion of a new key)")
	}
	return x.mkVal(App(fn, set, vals), rt)
}
