package vc

import (
	"strings"

	"golang.org/x/tools/go/ssa"
)

// VerifyLemmas turns the lemmas tagged with prop into obligations. A lemma is a
// closed formula; it is proved from the definitions of the spec functions it mentions only.
func (p *Prog) VerifyLemmas(prop string) *FuncResult {
	var ls []*Lemma
	for _, l := range p.Contracts.Lemmas {
		for _, q := range l.Props {
			if q == prop {
				ls = append(ls, l)
			}
		}
	}
	if len(ls) == 0 {
		return nil
	}
	res := &FuncResult{Key: "lemmas"}
	for _, l := range ls {
		mode := ModeInt
		name := l.Name
		if strings.HasPrefix(name, "bv ") {
			mode = ModeBV
			name = strings.TrimSpace(name[3:])
		}
		func() {
			x := &exec{p: p, c: NewCtx(mode), subAx: map[string]bool{}, notes: map[string]bool{}, specFns: map[string]*specFn{}, pureFns: map[string]bool{}}
			x.h = &heapEnv{c: x.c, sorts: map[string]string{}}
			defer func() {
				if r := recover(); r != nil {
					if u, ok := r.(unsupported); ok {
						res.Err += "lemma " + name + ": " + u.Error() + "; "
						return
					}
					panic(r)
				}
			}()
			st := &State{reach: "true", cells: map[*ssa.Alloc]*Val{}, globals: map[*ssa.Global]*Val{}, heap: map[string]string{}, ghost: map[string]*Val{}, epoch: "0"}
			env := &Env{x: x, vars: map[string]*Val{}, st: st, pkg: p.typesPkg(l.PkgPath), fnPkg: l.PkgPath}
			if l.Induct != "" {
				// induction on a natural number: `forall n int :: n >= 0 ==> P(n)` is split into P(0) and
				// P(k) ==> P(k+1) for a fresh k >= 0; the conclusion follows by the induction principle
				q, ok := l.E.(*EQuant)
				if !ok || !q.Forall || len(q.Vars) != 1 || q.Vars[0][0] != l.Induct {
					fail("induction lemma must have the form `forall %s int :: %s >= 0 ==> P`", l.Induct, l.Induct)
				}
				imp, ok := q.Body.(*EBin)
				if !ok || imp.Op != "==>" || ExprString(imp.X) != "("+l.Induct+">=0)" {
					fail("induction lemma must have the form `forall %s int :: %s >= 0 ==> P`", l.Induct, l.Induct)
				}
				t := p.resolveType(q.Vars[0][1], env.pkg)
				zero := x.mkVal(x.c.ILit(0), t)
				g0 := x.evalBool(imp.Y, env.with(l.Induct, zero))
				res.Obligs = append(res.Obligs, &Oblig{Name: shortKey(l.PkgPath) + "#lemma:" + name + ".base", Base: "lemma:" + name + ".base", Kind: "lemma", Func: l.PkgPath,
					Hyp: "true", Goal: g0, C: x.c, Props: l.Props})
				k := x.c.FreshConst("ind.k", x.c.I())
				kv := x.mkVal(k, t)
				k1 := x.mkVal(x.c.IAdd(k, x.c.ILit(1)), t)
				hyp := And(x.c.ICmp("<=", x.c.ILit(0), k), x.evalBool(imp.Y, env.with(l.Induct, kv)))
				g1 := x.evalBool(imp.Y, env.with(l.Induct, k1))
				res.Obligs = append(res.Obligs, &Oblig{Name: shortKey(l.PkgPath) + "#lemma:" + name + ".step", Base: "lemma:" + name + ".step", Kind: "lemma", Func: l.PkgPath,
					Hyp: hyp, Goal: g1, C: x.c, Props: l.Props})
				return
			}
			g := x.evalBool(l.E, env)
			res.Obligs = append(res.Obligs, &Oblig{Name: shortKey(l.PkgPath) + "#lemma:" + name, Base: "lemma:" + name, Kind: "lemma", Func: l.PkgPath,
				Hyp: "true", Goal: g, C: x.c, Props: l.Props})
		}()
	}
	return res
}
