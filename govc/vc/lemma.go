package vc

import (
	"strings"

	"golang.org/x/tools/go/ssa"
)

// VerifyLemmas turns the lemmas tagged with prop into obligations. A lemma is a
// closed formula; it is proved from the definitions of the spec functions it mentions only.
func (p *Prog) VerifyLemmas(prop string) *FuncResult {
	var ls []*Lemma
	for _, l := range p.Contracts.Lemmas {
		for _, q := range l.Props {
			if q == prop {
				ls = append(ls, l)
			}
		}
	}
	if len(ls) == 0 {
		return nil
	}
	res := &FuncResult{Key: "lemmas"}
	for _, l := range ls {
		mode := ModeInt
		name := l.Name
		if strings.HasPrefix(name, "bv ") {
			mode = ModeBV
			name = strings.TrimSpace(name[3:])
		}
		func() {
			x := &exec{p: p, c: NewCtx(mode), subAx: map[string]bool{}, notes: map[string]bool{}, specFns: map[string]*specFn{}, pureFns: map[string]bool{}}
			x.h = &heapEnv{c: x.c, sorts: map[string]string{}}
			defer func() {
				if r := recover(); r != nil {
					if u, ok := r.(unsupported); ok {
						res.Err += "lemma " + name + ": " + u.Error() + "; "
						return
					}
					panic(r)
				}
			}()
			st := &State{reach: "true", cells: map[*ssa.Alloc]*Val{}, globals: map[*ssa.Global]*Val{}, heap: map[string]string{}, ghost: map[string]*Val{}, epoch: "0"}
			env := &Env{x: x, vars: map[string]*Val{}, st: st, pkg: p.typesPkg(l.PkgPath), fnPkg: l.PkgPath}
			g := x.evalBool(l.E, env)
			res.Obligs = append(res.Obligs, &Oblig{Name: shortKey(l.PkgPath) + "#lemma:" + name, Base: "lemma:" + name, Kind: "lemma", Func: l.PkgPath,
				Hyp: "true", Goal: g, C: x.c, Props: l.Props})
		}()
	}
	return res
}
