package vc

import (
	"fmt"
	"go/ast"
	"go/token"
	"go/types"
	"math/big"
	"sort"
	"strings"

	"golang.org/x/tools/go/ssa"
)

func bigInt(v int64) *big.Int { return big.NewInt(v) }

// Oblig is one proof obligation: Hyp ∧ ¬Goal must be unsatisfiable.
type Oblig struct {
	Name   string
	Base   string // name without ordinal
	Kind   string
	Func   string
	Pos    token.Position
	pos    token.Pos
	Hyp    string
	Goal   string
	Props  []string
	Cover  bool // expected SAT (anti-vacuity)
	C      *Ctx
	Inputs []ModelVar // symbols whose model values describe the inputs
	Note   string
	Static    string // "ok" / "violated": decided by the generator itself (call-graph scan), no solver
	Relax     string // extra hypothesis tried when the strict obligation is not proved
	RelaxName string // name of the assumption class the relaxed proof depends on
	Timeout   int    // seconds (0 = tier default)
}

// ModelVar names an input of the function for counterexample reporting.
type ModelVar struct {
	Name string // source-level name (e.g. "code")
	Term string // SMT term
	Type string // Go type
	Kind string // scalar | bytes | string
}

type loopInfo struct {
	head    *ssa.BasicBlock
	body    map[*ssa.BasicBlock]bool
	latches []*ssa.BasicBlock
	ordinal int
	minPos  token.Pos
	frameArrs []string
}

type frame struct {
	fn     *ssa.Function
	con    *Contract
	vals   map[ssa.Value]*Val
	params []*Val
	free   []*Val
	out    map[*ssa.BasicBlock]*State
	edge   map[[2]int]string
	rets   []incoming
	retv   [][]*Val
	defers []*ssa.Defer
	prefix string
	top    bool
	loops  map[*ssa.BasicBlock]*loopInfo
	rpo    []*ssa.BasicBlock
	pending []pendingInv // back-edge checks
	ranges map[*ssa.Range]*rangeVal
	parent *frame
	entry  *State
}

type pendingInv struct {
	li *loopInfo
}

type exec struct {
	p      *Prog
	c      *Ctx
	h      *heapEnv
	fn     *ssa.Function
	con    *Contract
	obligs []*Oblig
	subAx  map[string]bool
	dry    int
	stack  []*ssa.Function
	notes  map[string]bool // assumptions used
	exprAt map[token.Pos]ast.Node
	inputs []ModelVar
	specFns map[string]*specFn
	pureFns map[string]bool
	noAssume bool
	wfSeen   map[string]bool
	cmpSeen  map[*Clause]bool
	// map assignments recorded while an execute closure runs (A-FRESHKEY)
	recording bool
	recStores []mapStore
	// cells captured by the current change pair's two closures only (not part of the compared state)
	pairPrivate []string
	frame    *frameInfo
	fnName   string
	fnPos    token.Pos
	suppress bool              // inside stored closures: implicit-panic obligations are not generated
	sliceElem map[string]string // slice-valued heap array → element heap array
	mapField  map[string]*types.Map
	file      *ast.File // file declaring the function under proof (import aliases are per file)
	usesCsprng bool     // the contract mentions csprng(): provenance flags are tracked
	firstStore map[string]*Val // first value stored to each named local of the function under proof
}

func (x *exec) note(f string, a ...interface{}) { x.notes[fmt.Sprintf(f, a...)] = true }

func (x *exec) mkVal(term string, t types.Type) *Val {
	v := &Val{T: term, Typ: t}
	if p, ok := t.Underlying().(*types.Pointer); ok {
		v.L = &Loc{K: LObj, Ref: term, T: p.Elem()}
	}
	return v
}

func (x *exec) term(v *Val) string {
	if v.T != "" {
		return v.T
	}
	if v.L != nil && v.L.K == LObj {
		return v.L.Ref
	}
	if v.Clo != nil {
		return x.cloTerm(v)
	}
	if v.Typ != nil && isFuncType(v.Typ) {
		v.T = x.c.FreshConst("fn", "Int")
		return v.T
	}
	if v.L != nil {
		// address of a non-heap location used as a value: give it an opaque non-nil ref
		v.T = x.c.FreshConst("addr", "Int")
		x.c.Axiom([]string{v.T}, Not(Eq(v.T, "0"))) // the address of a variable, field or element is never nil
		return v.T
	}
	if v.Typ != nil {
		// unknown value (e.g. merged function values)
		v.T = x.c.FreshConst("unk", x.c.SortOf(v.Typ))
		return v.T
	}
	fail("value without term")
	return ""
}

func isFuncType(t types.Type) bool { _, ok := t.Underlying().(*types.Signature); return ok }

const maxLen = "281474976710656" // 2^48

func (x *exec) wf(term string, t types.Type) string { return x.wfd(term, t, 0) }

func (x *exec) wfd(term string, t types.Type, depth int) string {
	switch u := t.Underlying().(type) {
	case *types.Basic:
		if isInt(t) {
			return x.c.Range(term, t)
		}
		if u.Kind() == types.String {
			l := App("str-len", term)
			return And(x.c.ICmp("<=", x.c.ILit(0), l), x.c.ICmp("<=", l, x.c.ILit(1<<48)))
		}
	case *types.Slice:
		off, ln, cp := App("s-off", term), App("s-len", term), App("s-cap", term)
		z, m := x.c.ILit(0), x.c.ILit(1<<48)
		return And(x.c.ICmp("<=", z, off), x.c.ICmp("<=", off, m), x.c.ICmp("<=", z, ln), x.c.ICmp("<=", ln, cp), x.c.ICmp("<=", cp, m),
			Imp(Eq(App("s-ref", term), "0"), Eq(cp, z)))
	case *types.Struct:
		if depth > 2 {
			return "true"
		}
		si := x.c.structOf(t)
		var cs []string
		for i, f := range si.fields {
			cs = append(cs, x.wfd(App(f, term), si.ftypes[i], depth+1))
		}
		return And(cs...)
	}
	return "true"
}

func (x *exec) freshVal(stem string, t types.Type, s *State) *Val {
	if tp, ok := t.(*types.Tuple); ok {
		v := &Val{Typ: t}
		for i := 0; i < tp.Len(); i++ {
			v.Tup = append(v.Tup, x.freshVal(fmt.Sprintf("%s.%d", stem, i), tp.At(i).Type(), s))
		}
		return v
	}
	term := x.c.FreshConst(stem, x.c.SortOf(t))
	v := x.mkVal(term, t)
	if s != nil {
		x.assume(s, x.wf(term, t))
	}
	return v
}

func (x *exec) assume(s *State, f string) {
	if f == "true" {
		return
	}
	r := And(s.reach, f)
	if len(r) > 200 {
		r = x.c.Define(x.c.Fresh("reach"), "Bool", r)
	}
	s.reach = r
}

// oblig records an obligation at state s and then assumes its goal.
func (x *exec) oblig(fr *frame, s *State, kind, label string, pos token.Pos, goal string, props []string) {
	if x.dry == 0 && goal != "true" {
		base := fr.prefix + kind
		if label != "" {
			base += ":" + label
		}
		o := &Oblig{Base: base, Kind: kind, Func: x.fnName, pos: pos, Hyp: s.reach, Goal: goal, C: x.c, Props: props, Inputs: x.inputs}
		if x.con != nil {
			o.Timeout = x.con.Timeout
			if props == nil && x.con.ClaimProps[kind] != nil {
				// obligations of a kind that an `auto` line switched on belong to that line's properties
				o.Props = x.con.ClaimProps[kind]
			}
		}
		if pos.IsValid() {
			o.Pos = x.p.Fset.Position(pos)
		}
		x.obligs = append(x.obligs, o)
	}
	x.assume(s, goal)
}

func (x *exec) claims(k string) bool {
	if x.con == nil {
		return false
	}
	if x.con.Claims[k] {
		return true
	}
	if x.suppress && k != "inverse" {
		return false
	}
	if k != "nopanic" && k != "nil" && k != "overflow" && x.con.Claims["nopanic"] {
		// nopanic implies the individual panic kinds (not nil derefs / overflow)
		switch k {
		case "bounds", "slice", "div", "typeassert", "make", "nilmap", "panic", "shift":
			return true
		}
	}
	return false
}

func (x *exec) srcText(pos token.Pos, fallback string) string {
	if n, ok := x.exprAt[pos]; ok {
		if e, ok := n.(ast.Expr); ok {
			s := types.ExprString(e)
			if len(s) > 60 {
				s = s[:60]
			}
			return strings.ReplaceAll(s, " ", "")
		}
	}
	return fallback
}

// ---- CFG utilities ----

func (fr *frame) analyse() {
	fn := fr.fn
	fr.loops = map[*ssa.BasicBlock]*loopInfo{}
	// back edges
	for _, b := range fn.Blocks {
		for _, s := range b.Succs {
			if s.Dominates(b) {
				li := fr.loops[s]
				if li == nil {
					li = &loopInfo{head: s, body: map[*ssa.BasicBlock]bool{s: true}}
					fr.loops[s] = li
				}
				li.latches = append(li.latches, b)
				// natural loop
				stack := []*ssa.BasicBlock{b}
				for len(stack) > 0 {
					n := stack[len(stack)-1]
					stack = stack[:len(stack)-1]
					if li.body[n] {
						continue
					}
					li.body[n] = true
					stack = append(stack, n.Preds...)
				}
			}
		}
	}
	var lis []*loopInfo
	for _, li := range fr.loops {
		li.minPos = token.Pos(1 << 60)
		for b := range li.body {
			for _, in := range b.Instrs {
				if _, ok := in.(*ssa.DebugRef); ok {
					continue
				}
				if p := in.Pos(); p.IsValid() && p < li.minPos {
					li.minPos = p
				}
			}
		}
		lis = append(lis, li)
	}
	sort.Slice(lis, func(i, j int) bool {
		if lis[i].minPos != lis[j].minPos {
			return lis[i].minPos < lis[j].minPos
		}
		return len(lis[i].body) > len(lis[j].body)
	})
	for i, li := range lis {
		li.ordinal = i + 1
	}
	// reverse postorder ignoring back edges
	seen := map[*ssa.BasicBlock]bool{}
	var post []*ssa.BasicBlock
	var dfs func(b *ssa.BasicBlock)
	dfs = func(b *ssa.BasicBlock) {
		seen[b] = true
		for _, s := range b.Succs {
			if !seen[s] && !s.Dominates(b) {
				dfs(s)
			}
		}
		post = append(post, b)
	}
	if len(fn.Blocks) > 0 {
		dfs(fn.Blocks[0])
	}
	for i := len(post) - 1; i >= 0; i-- {
		fr.rpo = append(fr.rpo, post[i])
	}
	// a plain DFS postorder is not a topological order of the acyclic graph only if
	// there are cross edges to unfinished nodes, which cannot happen for a DAG.
}

func (fr *frame) isBackEdge(from, to *ssa.BasicBlock) bool { return to.Dominates(from) }

// run executes the frame's function from state st.
func (x *exec) run(fr *frame, st *State) {
	fr.analyse()
	fr.out = map[*ssa.BasicBlock]*State{}
	fr.edge = map[[2]int]string{}
	fr.entry = st
	x.runBlocks(fr, fr.rpo, st)
}

// runBlocks processes blocks (a subsequence of the RPO); entry is used for the function entry block.
func (x *exec) runBlocks(fr *frame, blocks []*ssa.BasicBlock, entry *State) {
	for _, b := range blocks {
		var s *State
		if b == fr.fn.Blocks[0] && len(b.Preds) == 0 {
			s = entry.clone()
		} else {
			ins := x.incomingFor(fr, b, false)
			if len(ins) == 0 {
				delete(fr.out, b)
				continue
			}
			s = x.merge(ins, fmt.Sprintf("b%d", b.Index))
		}
		if li := fr.loops[b]; li != nil {
			if b == fr.fn.Blocks[0] && len(b.Preds) > 0 {
				fail("loop at function entry block")
			}
			s = x.enterLoop(fr, li, s)
		} else {
			x.phis(fr, b, false, s)
		}
		x.block(fr, b, s)
	}
}

func (x *exec) incomingFor(fr *frame, b *ssa.BasicBlock, back bool) []incoming {
	var ins []incoming
	for _, p := range b.Preds {
		if fr.isBackEdge(p, b) != back {
			continue
		}
		ps, ok := fr.out[p]
		if !ok {
			continue
		}
		for j, sc := range p.Succs {
			if sc != b {
				continue
			}
			cond := And(ps.reach, fr.edge[[2]int{p.Index, j}])
			if cond == "false" {
				continue
			}
			ins = append(ins, incoming{cond, ps})
		}
	}
	return ins
}

// phis assigns phi nodes of b from the incoming edges of the given kind.
func (x *exec) phis(fr *frame, b *ssa.BasicBlock, back bool, s *State) {
	for _, in := range b.Instrs {
		phi, ok := in.(*ssa.Phi)
		if !ok {
			break
		}
		var conds []string
		var vs []*Val
		for i, p := range b.Preds {
			if fr.isBackEdge(p, b) != back {
				continue
			}
			ps, ok := fr.out[p]
			if !ok {
				continue
			}
			for j, sc := range p.Succs {
				if sc == b {
					conds = append(conds, And(ps.reach, fr.edge[[2]int{p.Index, j}]))
					vs = append(vs, x.val(fr, phi.Edges[i], ps))
					break
				}
			}
		}
		if len(vs) == 0 {
			continue
		}
		fr.vals[phi] = x.mergeVals(conds, vs, "phi")
	}
}

func (x *exec) loopInvs(fr *frame, li *loopInfo) []*Clause {
	if fr.con == nil {
		return nil
	}
	return fr.con.Loops[li.ordinal]
}

func (x *exec) enterLoop(fr *frame, li *loopInfo, sin *State) *State {
	b := li.head
	x.phis(fr, b, false, sin)
	invs := x.loopInvs(fr, li)
	pos := li.minPos
	// establishment
	for i, inv := range invs {
		g := x.evalBool(inv.E, x.loopEnv(fr, li, sin))
		x.oblig(fr, sin, fmt.Sprintf("loop%d.inv%d.init", li.ordinal, i+1), inv.Label, pos, g, inv.Props)
	}
	if x.dry == 0 && x.claims("loopvar") {
		x.loopCounterObligs(fr, li)
	}
	// dry run to find what the loop modifies
	var body []*ssa.BasicBlock
	for _, bb := range fr.rpo {
		if li.body[bb] {
			body = append(body, bb)
		}
	}
	savedVals := map[ssa.Value]*Val{}
	for k, v := range fr.vals {
		savedVals[k] = v
	}
	x.dry++
	nObl := len(x.obligs)
	dryS := sin.clone()
	x.block(fr, b, dryS)
	x.runBlocks(fr, body[1:], nil)
	modCells := map[*ssa.Alloc]bool{}
	modHeap := map[string]bool{}
	goneHeap := map[string]bool{}
	modGlobals := map[*ssa.Global]bool{}
	modGhost := map[string]bool{}
	havocAll := false
	for _, l := range li.latches {
		ls, ok := fr.out[l]
		if !ok {
			continue
		}
		if ls.epoch != sin.epoch {
			havocAll = true
		}
		for a, v := range ls.cells {
			if ov, ok := sin.cells[a]; ok && ov != v && !(ov.T != "" && ov.T == v.T) {
				modCells[a] = true
			}
		}
		for g, v := range ls.globals {
			if ov, ok := sin.globals[g]; !ok || ov != v {
				modGlobals[g] = true
			}
		}
		for k, v := range ls.ghost {
			if ov, ok := sin.ghost[k]; ok && ov != v && ov.T != v.T {
				modGhost[k] = true
			}
		}
		for n, t := range ls.heap {
			if ot, ok := sin.heap[n]; ok {
				if ot != t {
					modHeap[n] = true
				}
			} else if t != n+"@"+sin.epoch {
				modHeap[n] = true
			}
		}
		for n := range sin.heap {
			if _, ok := ls.heap[n]; !ok {
				goneHeap[n] = true // forgotten by a havoc on the way to this latch
			}
		}
	}
	x.dry--
	x.obligs = x.obligs[:nObl]
	for _, bb := range body {
		delete(fr.out, bb)
	}
	fr.vals = savedVals
	// havoc
	s := sin.clone()
	mark := x.c.Mark()
	var havocked []string
	if havocAll {
		// heap entries the body provably leaves alone although it makes calls that havoc the rest
		// (C20: the history's own objects across calls of stored change closures)
		keep := map[string]string{}
		if x.con != nil && x.con.Claims["sigma"] {
			for n, t := range sin.heap {
				if !(strings.Contains(n, "utils.History") || strings.Contains(n, "utils.HeightChanges") || strings.Contains(n, "utils.change") || n == "alive") {
					continue
				}
				if !modHeap[n] && !goneHeap[n] && n != "alive" {
					keep[n] = t
				}
			}
		}
		x.havocAll(s)
		for n, t := range keep {
			s.heap[n] = t
		}
	} else {
		var names []string
		for n := range modHeap {
			names = append(names, n)
		}
		sort.Strings(names)
		havocked = names
		for _, n := range names {
			s.heap[n] = x.c.FreshConst(n, x.h.sorts[n])
			if n == "alive" {
				// objects never die: everything alive at loop entry is alive in every iteration
				q := x.c.Fresh("r")
				x.c.Axiom([]string{s.heap[n]}, fmt.Sprintf("(forall ((%s Int)) (! (=> (select %s %s) (select %s %s)) :pattern ((select %s %s))))",
					q, x.h.get(sin, "alive", "(Array Int Bool)"), q, s.heap[n], q, s.heap[n], q))
				x.reassertAlive(s)
			}
			if x.frame != nil && !x.frame.star && fr.top && !frameExempt(n) && s.epoch == x.frame.entry.epoch {
				x.assume(s, x.frameQuant(x.frame, n, x.h.get(x.frame.entry, n, x.h.sorts[n]), s.heap[n]))
				li.frameArrs = append(li.frameArrs, n)
			}
		}
		for g := range modGlobals {
			delete(s.globals, g)
		}
	}
	var ghs []string
	for k := range modGhost {
		ghs = append(ghs, k)
	}
	sort.Strings(ghs)
	for _, k := range ghs {
		if ss := sin.ghost[k].SetSort; ss != "" {
			s.ghost[k] = &Val{T: x.c.FreshConst("h.visited", ss), Typ: sin.ghost[k].Typ, SetSort: ss}
			continue
		}
		s.ghost[k] = x.freshVal("h.ghost", sin.ghost[k].Typ, s)
	}
	var cells []*ssa.Alloc
	for a := range modCells {
		cells = append(cells, a)
	}
	sort.Slice(cells, func(i, j int) bool { return cells[i].Pos() < cells[j].Pos() })
	for _, a := range cells {
		old := sin.cells[a]
		if old.Clo != nil || old.Tup != nil || (old.T == "" && old.L != nil) {
			s.cells[a] = &Val{Typ: old.Typ}
			continue
		}
		s.cells[a] = x.freshVal("h."+a.Comment, old.Typ, s)
		// whatever a variable refers to is a live object (or nil)
		x.assume(s, x.aliveVal(s, s.cells[a]))
	}
	for _, in := range b.Instrs {
		phi, ok := in.(*ssa.Phi)
		if !ok {
			break
		}
		fr.vals[phi] = x.freshVal("h."+phi.Comment, phi.Type(), s)
	}
	// the hidden index of a range loop starts at -1 and only counts up (structural fact of the lowering)
	for _, in := range b.Instrs {
		if u, ok := in.(*ssa.UnOp); ok {
			if a, ok := u.X.(*ssa.Alloc); ok && a.Comment == "rangeindex" {
				if v, ok := s.cells[a]; ok && v.T != "" {
					x.assume(s, And(x.c.ICmp("<=", x.c.ILit(-1), v.T), x.c.ICmp("<=", v.T, x.c.ILit(1<<48))))
				}
			}
		}
		if phi, ok := in.(*ssa.Phi); ok && phi.Comment == "rangeindex" {
			if v, ok := fr.vals[phi]; ok && v.T != "" {
				x.assume(s, And(x.c.ICmp("<=", x.c.ILit(-1), v.T), x.c.ICmp("<=", v.T, x.c.ILit(1<<48))))
			}
		}
	}
	if x.dry == 0 && len(havocked) > 0 {
		x.inferLoopFrame(fr, li, body, sin, s, havocked, mark)
	}
	for _, inv := range invs {
		x.assume(s, x.evalBool(inv.E, x.loopEnv(fr, li, s)))
	}
	s.reach = x.c.Define(x.c.Fresh(fmt.Sprintf("reach.loop%d", li.ordinal)), "Bool", s.reach)
	fr.pending = append(fr.pending, pendingInv{li})
	return s
}

// loopCounterObligs: a local that the loop's latch increments by one (`for …; …; i++`) is the loop's counter;
// the obligation `loopK.counter:<name>` says that no other statement of the loop body (nested loops included)
// assigns it. Decided on the SSA of the real function (Static), no solver.
func (x *exec) loopCounterObligs(fr *frame, li *loopInfo) {
	isLatch := map[*ssa.BasicBlock]bool{}
	for _, l := range li.latches {
		isLatch[l] = true
	}
	counters := map[*ssa.Alloc]bool{}
	for _, l := range li.latches {
		for _, in := range l.Instrs {
			st, ok := in.(*ssa.Store)
			if !ok {
				continue
			}
			a, ok := st.Addr.(*ssa.Alloc)
			if !ok || a.Heap {
				continue
			}
			bo, ok := st.Val.(*ssa.BinOp)
			if !ok || bo.Op != token.ADD {
				continue
			}
			ld, ok := bo.X.(*ssa.UnOp)
			c, isC := bo.Y.(*ssa.Const)
			if !ok || ld.X != a || !isC || c.Value == nil || c.Value.ExactString() != "1" {
				continue
			}
			counters[a] = true
		}
	}
	for a := range counters {
		bad := ""
		for b := range li.body {
			if isLatch[b] {
				continue
			}
			for _, in := range b.Instrs {
				if st, ok := in.(*ssa.Store); ok && st.Addr == a {
					bad = x.p.Fset.Position(st.Pos()).String()
				}
			}
		}
		o := &Oblig{Base: fmt.Sprintf("%sloop%d.counter:%s", fr.prefix, li.ordinal, a.Comment), Kind: "loopvar", Func: x.fnName, pos: li.minPos, Hyp: "true", Goal: "true", C: x.c,
			Static: "ok", Note: fmt.Sprintf("the counter %s of loop %d is assigned only by its own increment", a.Comment, li.ordinal)}
		if bad != "" {
			o.Static, o.Goal = "violated", "false"
			o.Note = fmt.Sprintf("the counter %s of loop %d is also assigned inside the loop body at %s", a.Comment, li.ordinal, bad)
		}
		if li.minPos.IsValid() {
			o.Pos = x.p.Fset.Position(li.minPos)
		}
		x.obligs = append(x.obligs, o)
	}
}

// decodedUseObligs: in a decoder, a local whose address is handed to a call (x.Deserialize(r),
// ReadElements(r, &x), …) has been filled from the stream; the obligation `decoded:<name>` says that the
// function then uses it (loads it or a part of it, stores it somewhere, returns it) — a value that is read
// from the stream and dropped cannot be reproduced by the codec. Decided on the SSA (Static), no solver.
func (x *exec) decodedUseObligs(fn *ssa.Function) {
	seen := map[string]int{}
	for _, b := range fn.Blocks {
		for _, in := range b.Instrs {
			a, ok := in.(*ssa.Alloc)
			if !ok || a.Comment == "" || a.Comment == "varargs" || a.Referrers() == nil {
				continue // (varargs: the compiler's argument array of a variadic call)
			}
			if x.con != nil && x.con.Claims["decoded-ok:"+a.Comment] {
				continue // declared redundant on the wire in the contract file
			}
			passed, used := false, false
			var visit func(v ssa.Value, depth int)
			visit = func(v ssa.Value, depth int) {
				refs := v.Referrers()
				if refs == nil || depth > 3 {
					return
				}
				for _, r := range *refs {
					switch u := r.(type) {
					case *ssa.DebugRef:
					case *ssa.Store:
						if u.Val == v {
							used = true // the address itself is stored somewhere: the value lives on
						}
						// a store INTO the local is not a use
					case *ssa.UnOp:
						used = true
					case ssa.CallInstruction:
						isDecode := false
						cc := u.Common()
						name := ""
						if cc.IsInvoke() {
							name = cc.Method.Name()
						} else if sc := cc.StaticCallee(); sc != nil {
							name = sc.Name()
						}
						ln := strings.ToLower(name)
						if strings.HasPrefix(ln, "deserialize") || strings.HasPrefix(ln, "read") || strings.HasPrefix(ln, "decode") {
							isDecode = true
						}
						if isDecode {
							passed = true
						} else {
							used = true // handed to some other function
						}
					case *ssa.FieldAddr:
						visit(u, depth+1)
					case *ssa.IndexAddr:
						visit(u, depth+1)
					case *ssa.Slice:
						visit(u, depth+1)
					case *ssa.MakeInterface:
						visit(u, depth+1)
					default:
						used = true
					}
				}
			}
			visit(a, 0)
			if !passed {
				continue
			}
			base := "decoded:" + a.Comment
			seen[base]++
			if seen[base] > 1 {
				base = fmt.Sprintf("%s@%d", base, seen[base])
			}
			o := &Oblig{Base: base, Kind: "decoded", Func: x.fnName, pos: a.Pos(), Hyp: "true", Goal: "true", C: x.c,
				Static: "ok", Note: fmt.Sprintf("the local %s is filled by a decode call and used afterwards", a.Comment)}
			if !used {
				o.Static, o.Goal = "violated", "false"
				o.Note = fmt.Sprintf("the local %s is filled by a decode call and then never used: what was read from the stream is dropped", a.Comment)
			}
			if a.Pos().IsValid() {
				o.Pos = x.p.Fset.Position(a.Pos())
			}
			x.obligs = append(x.obligs, o)
		}
	}
}

// checkBackEdges emits the preservation obligations of all loops of the frame.
func (x *exec) checkBackEdges(fr *frame) {
	pend := fr.pending
	fr.pending = nil
	done := map[*loopInfo]bool{}
	for _, p := range pend {
		li := p.li
		if done[li] {
			continue
		}
		done[li] = true
		invs := x.loopInvs(fr, li)
		if len(invs) == 0 && len(li.frameArrs) == 0 {
			continue
		}
		ins := x.incomingFor(fr, li.head, true)
		if len(ins) == 0 {
			continue
		}
		// bind phis to back-edge values
		saved := map[*ssa.Phi]*Val{}
		for _, in := range li.head.Instrs {
			if phi, ok := in.(*ssa.Phi); ok {
				saved[phi] = fr.vals[phi]
			} else {
				break
			}
		}
		s := x.merge(ins, fmt.Sprintf("latch%d", li.ordinal))
		x.phis(fr, li.head, true, s)
		for i, inv := range invs {
			g := x.evalBool(inv.E, x.loopEnv(fr, li, s))
			x.oblig(fr, s, fmt.Sprintf("loop%d.inv%d.preserve", li.ordinal, i+1), inv.Label, li.minPos, g, inv.Props)
		}
		for _, n := range li.frameArrs {
			sortN := x.h.sorts[n]
			r := x.c.FreshConst("fr.r", "Int")
			j := x.c.FreshConst("fr.j", x.c.I())
			x.oblig(fr, s.clone(), fmt.Sprintf("loop%d.frame", li.ordinal), shortHeapName(n), li.minPos,
				x.frameBody(x.frame, n, x.h.get(x.frame.entry, n, sortN), x.h.get(s, n, sortN), r, j), nil)
		}
		for phi, v := range saved {
			fr.vals[phi] = v
		}
	}
}

// ---- values ----

func (x *exec) val(fr *frame, v ssa.Value, s *State) *Val {
	switch c := v.(type) {
	case *ssa.Const:
		t := c.Type()
		if c.Value == nil {
			if _, ok := t.Underlying().(*types.Tuple); ok {
				return &Val{Typ: t}
			}
			return x.mkVal(x.c.Zero(t), t)
		}
		return x.mkVal(x.c.ConstVal(c.Value, t), t)
	case *ssa.Global:
		return &Val{Typ: c.Type(), L: &Loc{K: LGlobal, Global: c}}
	case *ssa.Function:
		return &Val{Typ: c.Type(), Clo: &closure{Fn: c}}
	case *ssa.Builtin:
		return &Val{Typ: c.Type()}
	case *ssa.Parameter:
		for f := fr; f != nil; f = f.parent {
			if c.Parent() == f.fn {
				for i, p := range f.fn.Params {
					if p == c {
						return f.params[i]
					}
				}
			}
		}
	case *ssa.FreeVar:
		for f := fr; f != nil; f = f.parent {
			if c.Parent() == f.fn {
				for i, p := range f.fn.FreeVars {
					if p == c {
						return f.free[i]
					}
				}
			}
		}
	}
	for f := fr; f != nil; f = f.parent {
		if r, ok := f.vals[v]; ok {
			return r
		}
	}
	fail("no value for %s (%T) in %s", v.Name(), v, fr.fn)
	return nil
}

// ---- block execution ----

func (x *exec) block(fr *frame, b *ssa.BasicBlock, s *State) {
	fr.out[b] = s
	for _, in := range b.Instrs {
		if s.reach == "false" {
			// dead path: stop executing, no successors
			for j := range b.Succs {
				fr.edge[[2]int{b.Index, j}] = "false"
			}
			return
		}
		x.instr(fr, b, in, s)
	}
}

func (x *exec) instr(fr *frame, b *ssa.BasicBlock, in ssa.Instruction, s *State) {
	switch i := in.(type) {
	case *ssa.DebugRef, *ssa.Phi:
		return
	case *ssa.Alloc:
		x.alloc(fr, i, s)
	case *ssa.Store:
		addr := x.val(fr, i.Addr, s)
		v := x.val(fr, i.Val, s)
		if addr.L == nil {
			fail("store through pointer without location: %s", i)
		}
		x.nilCheck(fr, s, addr, i.Pos())
		if addr.L.K == LCell && x.dry == 0 && fr.top && v.T != "" {
			// first value assigned to a local: `first(name)` in a split clause refers to it
			if x.firstStore == nil {
				x.firstStore = map[string]*Val{}
			}
			if _, done := x.firstStore[addr.L.Alloc.Comment]; !done {
				x.firstStore[addr.L.Alloc.Comment] = v
			}
		}
		x.store(s, addr.L, v, i.Val.Type())
	case *ssa.UnOp:
		x.unop(fr, i, s)
	case *ssa.BinOp:
		fr.vals[i] = x.binop(fr, s, i.Op, x.val(fr, i.X, s), x.val(fr, i.Y, s), i.X.Type(), i.Y.Type(), i.Type(), i.Pos())
	case *ssa.FieldAddr:
		p := x.val(fr, i.X, s)
		st := i.X.Type().Underlying().(*types.Pointer).Elem()
		if p.L == nil {
			fail("field address of pointer without location: %s", i)
		}
		x.nilCheck(fr, s, p, i.Pos())
		l := x.fieldLoc(p.L, st, i.Field)
		r := &Val{Typ: i.Type(), L: l}
		if l.K == LObj {
			r.T = l.Ref
		}
		fr.vals[i] = r
	case *ssa.Field:
		sv := x.val(fr, i.X, s)
		si := x.c.structOf(i.X.Type())
		fr.vals[i] = x.mkVal(App(si.fields[i.Field], x.term(sv)), i.Type())
	case *ssa.IndexAddr:
		x.indexAddr(fr, i, s)
	case *ssa.Index:
		xv := x.val(fr, i.X, s)
		iv := x.toIndex(x.val(fr, i.Index, s), i.Index.Type())
		switch u := i.X.Type().Underlying().(type) {
		case *types.Array:
			x.boundsOblig(fr, s, iv, x.c.ILit(u.Len()), i.Pos(), "bounds")
			fr.vals[i] = x.mkVal(x.arrayGet(x.term(xv), iv, i.X.Type()), i.Type())
		case *types.Basic: // string
			x.boundsOblig(fr, s, iv, App("str-len", x.term(xv)), i.Pos(), "bounds")
			x.c.Fun("str-at", []string{"Str", x.c.I()}, x.c.SortOf(i.Type()))
			r := App("str-at", x.term(xv), iv)
			if x.c.Mode == ModeInt {
				x.assume(s, x.c.Range(r, i.Type()))
			}
			fr.vals[i] = x.mkVal(r, i.Type())
		default:
			fail("index of %s", i.X.Type())
		}
	case *ssa.Slice:
		x.sliceOp(fr, i, s)
	case *ssa.Convert:
		fr.vals[i] = x.convert(fr, s, x.val(fr, i.X, s), i.X.Type(), i.Type(), i.Pos())
	case *ssa.ChangeType:
		v := x.val(fr, i.X, s)
		nv := *v
		nv.Typ = i.Type()
		if v.T != "" {
			nv = *x.mkVal(v.T, i.Type())
			nv.Clo, nv.Origin = v.Clo, v.Origin
		}
		fr.vals[i] = &nv
	case *ssa.ChangeInterface:
		v := x.val(fr, i.X, s)
		fr.vals[i] = x.mkVal(x.term(v), i.Type())
	case *ssa.MakeInterface:
		fr.vals[i] = x.makeIface(s, x.val(fr, i.X, s), i.X.Type(), i.Type())
	case *ssa.TypeAssert:
		x.typeAssert(fr, i, s)
	case *ssa.Extract:
		t := x.val(fr, i.Tuple, s)
		if i.Index >= len(t.Tup) {
			fail("extract %d from %d-tuple", i.Index, len(t.Tup))
		}
		fr.vals[i] = t.Tup[i.Index]
	case *ssa.MakeSlice:
		x.makeSlice(fr, i, s)
	case *ssa.MakeMap:
		m := i.Type().Underlying().(*types.Map)
		ref := x.newRef(s, "map")
		dom, val, card, ks, vs := x.mapArrs(m)
		ds, vsrt, cs := fmt.Sprintf("(Array Int (Array %s Bool))", ks), fmt.Sprintf("(Array Int (Array %s %s))", ks, vs), fmt.Sprintf("(Array Int %s)", x.c.I())
		x.h.set(s, dom, ds, Sto(x.h.get(s, dom, ds), ref, fmt.Sprintf("((as const (Array %s Bool)) false)", ks)))
		x.h.set(s, val, vsrt, Sto(x.h.get(s, val, vsrt), ref, fmt.Sprintf("((as const (Array %s %s)) %s)", ks, vs, x.c.Zero(m.Elem()))))
		x.h.set(s, card, cs, Sto(x.h.get(s, card, cs), ref, x.c.ILit(0)))
		fr.vals[i] = x.mkVal(ref, i.Type())
	case *ssa.MapUpdate:
		x.mapUpdate(fr, s, x.val(fr, i.Map, s), x.val(fr, i.Key, s), x.val(fr, i.Value, s), i.Map.Type().Underlying().(*types.Map), i.Pos())
	case *ssa.Lookup:
		x.lookup(fr, i, s)
	case *ssa.Range:
		x.rangeInit(fr, i, s)
	case *ssa.Next:
		x.next(fr, i, s)
	case *ssa.MakeClosure:
		fn := i.Fn.(*ssa.Function)
		var bind []*Val
		for _, bv := range i.Bindings {
			bind = append(bind, x.val(fr, bv, s))
		}
		fr.vals[i] = &Val{Typ: i.Type(), Clo: &closure{Fn: fn, Bind: bind, Instr: i}}
	case *ssa.Call:
		fr.vals[i] = x.call(fr, s, &i.Call, i, i.Pos())
	case *ssa.Defer:
		dup := false
		for _, d := range fr.defers {
			if d == i {
				dup = true
			}
		}
		if !dup {
			fr.defers = append(fr.defers, i)
		}
	case *ssa.RunDefers:
		x.runDefers(fr, s)
	case *ssa.Go:
		fail("go statement")
	case *ssa.Send, *ssa.Select, *ssa.MakeChan:
		fail("channel operation %s", in)
	case *ssa.If:
		c := x.term(x.val(fr, i.Cond, s))
		fr.edge[[2]int{b.Index, 0}] = c
		fr.edge[[2]int{b.Index, 1}] = Not(c)
	case *ssa.Jump:
		fr.edge[[2]int{b.Index, 0}] = "true"
	case *ssa.Return:
		var rs []*Val
		for _, r := range i.Results {
			rs = append(rs, x.val(fr, r, s))
		}
		fr.rets = append(fr.rets, incoming{s.reach, s})
		fr.retv = append(fr.retv, rs)
	case *ssa.Panic:
		if x.claims("panic") {
			x.oblig(fr, s, "panic", "explicit", i.Pos(), "false", nil)
		}
		s.reach = "false"
	case *ssa.SliceToArrayPointer:
		fail("slice to array pointer conversion")
	default:
		fail("instruction %T: %s", in, in)
	}
}

func (x *exec) nilCheck(fr *frame, s *State, p *Val, pos token.Pos) {
	if p.L == nil || p.L.K != LObj || strings.HasPrefix(p.L.Ref, "(sub!") {
		return
	}
	if !x.claims("nil") {
		// a nil dereference panics: the path ends there (partial correctness; `claims nil` proves there is none)
		x.assume(s, Not(Eq(p.L.Ref, "0")))
		return
	}
	x.oblig(fr, s, "nil", x.srcText(pos, "deref"), pos, Not(Eq(p.L.Ref, "0")), nil)
}

func (x *exec) newRef(s *State, stem string) string {
	r := x.c.FreshConst("new."+stem, "Int")
	al := x.h.get(s, "alive", "(Array Int Bool)")
	x.assume(s, And(Not(Eq(r, "0")), Not(Sel(al, r))))
	x.h.set(s, "alive", "(Array Int Bool)", Sto(al, r, "true"))
	s.aliveRefs = append(s.aliveRefs[:len(s.aliveRefs):len(s.aliveRefs)], r)
	return r
}

// havocAll forgets the heap but not which known objects are alive (objects never die).
func (x *exec) havocAll(s *State) {
	x.h.havocAll(s)
	x.reassertAlive(s)
}

// reassertAlive re-states, for the current `alive` array, that every object this function
// allocated or received is alive (or nil).
func (x *exec) reassertAlive(s *State) {
	if len(s.aliveRefs) == 0 {
		return
	}
	al := x.h.get(s, "alive", "(Array Int Bool)")
	var fs []string
	for _, r := range s.aliveRefs {
		fs = append(fs, Or(Eq(r, "0"), Sel(al, r)))
	}
	x.assume(s, x.c.Define(x.c.Fresh("alive.known"), "Bool", And(fs...)))
}

func (x *exec) alloc(fr *frame, a *ssa.Alloc, s *State) {
	et := a.Type().Underlying().(*types.Pointer).Elem()
	if !a.Heap {
		s.cells[a] = x.mkVal(x.c.Zero(et), et)
		if _, ok := et.Underlying().(*types.Signature); ok {
			s.cells[a] = &Val{Typ: et, T: "0"}
		}
		fr.vals[a] = &Val{Typ: a.Type(), L: &Loc{K: LCell, Alloc: a}}
		return
	}
	ref := x.newRef(s, a.Comment)
	v := x.mkVal(ref, a.Type())
	x.store(s, v.L, x.mkVal(x.c.Zero(et), et), et)
	fr.vals[a] = v
}

func (x *exec) unop(fr *frame, i *ssa.UnOp, s *State) {
	v := x.val(fr, i.X, s)
	switch i.Op {
	case token.MUL:
		if v.L == nil {
			fail("load through pointer without location: %s", i)
		}
		x.nilCheck(fr, s, v, i.Pos())
		r := x.load(s, v.L, i.Type())
		fr.vals[i] = r
	case token.NOT:
		fr.vals[i] = x.mkVal(Not(x.term(v)), i.Type())
	case token.SUB:
		if isFloat(i.Type()) {
			fr.vals[i] = x.mkVal("(fp.neg "+x.term(v)+")", i.Type())
			return
		}
		fr.vals[i] = x.arith(fr, s, token.SUB, x.c.Zero(i.Type()), x.term(v), i.Type(), i.Pos())
	case token.XOR:
		if x.c.Mode == ModeInt {
			// ^x == -x-1 (signed) ; max-x (unsigned)
			_, signed := x.c.bits(i.Type())
			if signed {
				fr.vals[i] = x.mkVal(fmt.Sprintf("(- (- %s) 1)", x.term(v)), i.Type())
			} else {
				_, hi := x.c.Bounds(i.Type())
				fr.vals[i] = x.mkVal(fmt.Sprintf("(- %s %s)", hi, x.term(v)), i.Type())
			}
			return
		}
		fr.vals[i] = x.mkVal("(bvnot "+x.term(v)+")", i.Type())
	case token.ARROW:
		fail("channel receive")
	default:
		fail("unary %s", i.Op)
	}
}

// toIndex converts an integer value of any integer type to the index sort.
func (x *exec) toIndex(v *Val, t types.Type) string {
	return x.c.Convert(x.term(v), t, types.Typ[types.Int])
}

func (x *exec) boundsOblig(fr *frame, s *State, idx, n string, pos token.Pos, kind string) {
	g := And(x.c.ICmp("<=", x.c.ILit(0), idx), x.c.ICmp("<", idx, n))
	if x.claims(kind) {
		x.oblig(fr, s, kind, x.srcText(pos, "index"), pos, g, nil)
	}
}

func (x *exec) indexAddr(fr *frame, i *ssa.IndexAddr, s *State) {
	xv := x.val(fr, i.X, s)
	idxT := i.Index.Type()
	var iv string
	// unsigned index types wider than int cannot occur; uint64 index ≥ 2^63 is out of range anyway
	if b, ok := idxT.Underlying().(*types.Basic); ok {
		bits, signed, _ := intBits(b)
		if bits == 64 && !signed && x.c.Mode == ModeBV {
			// treat as signed: values ≥ 2^63 become negative and fail the bounds obligation
			iv = x.term(x.val(fr, i.Index, s))
		}
	}
	if iv == "" {
		iv = x.toIndex(x.val(fr, i.Index, s), idxT)
	}
	switch u := i.X.Type().Underlying().(type) {
	case *types.Slice:
		sl := x.term(xv)
		x.boundsOblig(fr, s, iv, App("s-len", sl), i.Pos(), "bounds")
		fr.vals[i] = &Val{Typ: i.Type(), L: &Loc{K: LElem, Slice: sl, Idx: iv, T: u.Elem()}}
	case *types.Pointer:
		at := u.Elem()
		arr := at.Underlying().(*types.Array)
		x.boundsOblig(fr, s, iv, x.c.ILit(arr.Len()), i.Pos(), "bounds")
		if xv.L == nil {
			fail("index of array pointer without location")
		}
		fr.vals[i] = &Val{Typ: i.Type(), L: &Loc{K: LIdx, Parent: xv.L, Idx: iv, T: at}}
	default:
		fail("indexaddr of %s", i.X.Type())
	}
}

// bytesOf is the backing store of a snapshot of the byte-array value v: a function of the value, so two
// snapshots of equal arrays are equal stores (the elements past the array's length are never
// observable; fixing them as a function of v is what makes uninterpreted functions of a slice's
// contents agree on equal contents).
func (x *exec) bytesOf(v string, at types.Type) string {
	n, _ := isByteArray(at)
	fn := fmt.Sprintf("bytes!%d", n)
	if _, ok := x.c.idx[fn]; !ok {
		asort := fmt.Sprintf("(Array %s %s)", x.c.I(), x.c.SortOf(at.Underlying().(*types.Array).Elem()))
		x.c.Fun(fn, []string{x.c.SortOf(at)}, asort)
		var eqs []string
		for k := int64(0); k < n; k++ {
			eqs = append(eqs, Eq(Sel(App(fn, "bv"), x.c.ILit(k)), x.arrayGet("bv", x.c.ILit(k), at)))
		}
		x.c.Axiom([]string{fn}, fmt.Sprintf("(forall ((bv %s)) (! %s :pattern ((%s bv))))", x.c.SortOf(at), And(eqs...), fn))
	}
	return App(fn, v)
}

func (x *exec) sliceOp(fr *frame, i *ssa.Slice, s *State) {
	xv := x.val(fr, i.X, s)
	get := func(v ssa.Value) string {
		if v == nil {
			return ""
		}
		return x.toIndex(x.val(fr, v, s), v.Type())
	}
	lo, hi, mx := get(i.Low), get(i.High), get(i.Max)
	z := x.c.ILit(0)
	if lo == "" {
		lo = z
	}
	label := x.srcText(i.Pos(), "slice")
	switch u := i.X.Type().Underlying().(type) {
	case *types.Slice:
		sl := x.term(xv)
		cp := App("s-cap", sl)
		if hi == "" {
			hi = App("s-len", sl)
		}
		lim := cp
		if mx != "" {
			lim = mx
		}
		if x.claims("slice") {
			g := And(x.c.ICmp("<=", z, lo), x.c.ICmp("<=", lo, hi), x.c.ICmp("<=", hi, lim))
			if mx != "" {
				g = And(g, x.c.ICmp("<=", mx, cp))
			}
			x.oblig(fr, s, "slice", label, i.Pos(), g, nil)
		}
		r := fmt.Sprintf("(mk-slice %s %s %s %s)", App("s-ref", sl), x.c.IAdd(App("s-off", sl), lo), x.c.ISub(hi, lo), x.c.ISub(lim, lo))
		nv := x.mkVal(x.c.Let("sl", "Slice", r), i.Type())
		nv.Origin = xv.Origin
		nv.OriginT = xv.OriginT
		fr.vals[i] = nv
	case *types.Basic: // string
		st := x.term(xv)
		if hi == "" {
			hi = App("str-len", st)
		}
		if x.claims("slice") {
			x.oblig(fr, s, "slice", label, i.Pos(), And(x.c.ICmp("<=", z, lo), x.c.ICmp("<=", lo, hi), x.c.ICmp("<=", hi, App("str-len", st))), nil)
		}
		x.c.Fun("str-sub", []string{"Str", x.c.I(), x.c.I()}, "Str")
		r := App("str-sub", st, lo, hi)
		x.assume(s, Eq(App("str-len", r), x.c.ISub(hi, lo)))
		fr.vals[i] = x.mkVal(r, i.Type())
	case *types.Pointer: // pointer to array
		at := u.Elem()
		arr := at.Underlying().(*types.Array)
		n := x.c.ILit(arr.Len())
		if hi == "" {
			hi = n
		}
		lim := n
		if mx != "" {
			lim = mx
		}
		if x.claims("slice") {
			x.oblig(fr, s, "slice", label, i.Pos(), And(x.c.ICmp("<=", z, lo), x.c.ICmp("<=", lo, hi), x.c.ICmp("<=", hi, lim), x.c.ICmp("<=", lim, n)), nil)
		}
		if xv.L == nil {
			fail("slice of array pointer without location")
		}
		// snapshot of the array contents in a fresh backing store
		av := x.load(s, xv.L, at)
		ref := x.newRef(s, "arr")
		name, sortN := x.elemArr(arr.Elem())
		h := x.h.get(s, name, sortN)
		if nb, ok := isByteArray(at); ok {
			_ = nb
			x.h.set(s, name, sortN, Sto(h, ref, x.bytesOf(x.term(av), at)))
		} else {
			x.h.set(s, name, sortN, Sto(h, ref, x.term(av)))
		}
		r := fmt.Sprintf("(mk-slice %s %s %s %s)", ref, lo, x.c.ISub(hi, lo), x.c.ISub(lim, lo))
		nv := x.mkVal(x.c.Let("sl", "Slice", r), i.Type())
		nv.Origin = xv.L
		nv.OriginT = at
		fr.vals[i] = nv
	default:
		fail("slice of %s", i.X.Type())
	}
}

func (x *exec) makeSlice(fr *frame, i *ssa.MakeSlice, s *State) {
	ln := x.toIndex(x.val(fr, i.Len, s), i.Len.Type())
	cp := x.toIndex(x.val(fr, i.Cap, s), i.Cap.Type())
	z := x.c.ILit(0)
	et := i.Type().Underlying().(*types.Slice).Elem()
	if x.claims("make") {
		lim := x.c.ILit(1 << 47)
		x.oblig(fr, s, "make", x.srcText(i.Pos(), "make"), i.Pos(), And(x.c.ICmp("<=", z, ln), x.c.ICmp("<=", ln, cp), x.c.ICmp("<=", cp, lim)), nil)
	}
	if x.claims("alloc") {
		// allocation-size obligation: elements * size ≤ ALLOC_CAP (64 MiB)
		sz := x.p.Sizes.Sizeof(et)
		if sz < 1 {
			sz = 1
		}
		if x.con != nil && len(x.con.AllocBound) > 0 && fr.top {
			// declared limit: bytes allocated from a wire-supplied size stay within the bound expression
			for _, ab := range x.con.AllocBound {
				env := x.frameEnv(fr, s, i.Pos())
				pnames := x.con.Params
				if x.con.Recv != "" {
					pnames = append([]string{x.con.Recv}, pnames...)
				}
				for k, n := range pnames {
					if k < len(fr.params) {
						if _, taken := env.vars[n]; !taken && env.cell(n) == nil {
							env.vars[n] = fr.params[k]
						}
					}
				}
				bv := x.eval(ab.E, env, types.Typ[types.Int])
				bound := x.c.Convert(x.term(bv), bv.Typ, types.Typ[types.Int])
				x.oblig(fr, s, "alloc", x.srcText(i.Pos(), "make"), i.Pos(), And(x.c.ICmp("<=", z, cp), x.c.ICmp("<=", x.c.IMul(cp, x.c.ILit(sz)), bound), x.c.ICmp("<=", cp, x.c.ILit(1<<40))), nil)
			}
		} else {
			x.oblig(fr, s, "alloc", x.srcText(i.Pos(), "make"), i.Pos(), And(x.c.ICmp("<=", z, cp), x.c.ICmp("<=", cp, x.c.ILit((64<<20)/sz))), nil)
		}
	}
	ref := x.newRef(s, "mk")
	x.clearCsprng(s, ref)
	name, sortN := x.elemArr(et)
	h := x.h.get(s, name, sortN)
	x.h.set(s, name, sortN, Sto(h, ref, fmt.Sprintf("((as const (Array %s %s)) %s)", x.c.I(), x.c.SortOf(et), x.c.Zero(et))))
	fr.vals[i] = x.mkVal(x.c.Let("sl", "Slice", fmt.Sprintf("(mk-slice %s %s %s %s)", ref, z, ln, cp)), i.Type())
}

func (x *exec) makeIface(s *State, v *Val, from, to types.Type) *Val {
	if _, ok := from.Underlying().(*types.Interface); ok {
		return x.mkVal(x.term(v), to)
	}
	tag := x.c.TypeTag(from)
	switch from.Underlying().(type) {
	case *types.Pointer, *types.Map, *types.Chan, *types.Signature:
		return x.mkVal(App("mk-iface", tag, x.term(v)), to)
	}
	// boxed value: the box is a function of the value so that equal values give equal interfaces
	srt := x.c.SortOf(from)
	boxFn := "box!" + sortKey(srt) + "!" + tag
	unboxFn := "unbox!" + sortKey(srt)
	x.c.Fun(boxFn, []string{srt}, "Int")
	x.c.Fun(unboxFn, []string{"Int"}, srt)
	b := App(boxFn, x.term(v))
	x.assume(s, Eq(App(unboxFn, b), x.term(v)))
	r := x.mkVal(App("mk-iface", tag, b), to)
	r.Boxed = v
	return r
}

func (x *exec) typeAssert(fr *frame, i *ssa.TypeAssert, s *State) {
	v := x.term(x.val(fr, i.X, s))
	at := i.AssertedType
	var ok string
	var res *Val
	if _, isI := at.Underlying().(*types.Interface); isI {
		okc := x.c.FreshConst("implements", "Bool")
		ok = And(Not(Eq(App("i-tag", v), "0")), okc)
		if types.Identical(i.X.Type(), at) || types.AssignableTo(i.X.Type(), at) {
			ok = Not(Eq(App("i-tag", v), "0"))
		}
		res = x.mkVal(v, at)
	} else {
		ok = Eq(App("i-tag", v), x.c.TypeTag(at))
		switch at.Underlying().(type) {
		case *types.Pointer, *types.Map, *types.Chan, *types.Signature:
			res = x.mkVal(App("i-ref", v), at)
		default:
			srt := x.c.SortOf(at)
			unboxFn := "unbox!" + sortKey(srt)
			x.c.Fun(unboxFn, []string{"Int"}, srt)
			res = x.mkVal(App(unboxFn, App("i-ref", v)), at)
		}
	}
	if i.CommaOk {
		okv := x.c.Let("taok", "Bool", ok)
		zero := x.mkVal(x.c.Zero(at), at)
		r := x.mkVal(Ite(okv, x.term(res), x.term(zero)), at)
		fr.vals[i] = &Val{Typ: i.Type(), Tup: []*Val{r, x.mkVal(okv, types.Typ[types.Bool])}}
		return
	}
	if x.claims("typeassert") {
		x.oblig(fr, s, "typeassert", x.srcText(i.Pos(), "assert"), i.Pos(), ok, nil)
	} else {
		x.assume(s, ok)
	}
	fr.vals[i] = res
}

func (x *exec) runDefers(fr *frame, s *State) {
	for k := len(fr.defers) - 1; k >= 0; k-- {
		d := fr.defers[k]
		// deferred calls are executed as ordinary calls at the return point
		x.call(fr, s, &d.Call, nil, d.Pos())
	}
}
