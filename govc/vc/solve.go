package vc

import (
	"bytes"
	"context"
	"fmt"
	"os"
	osexec "os/exec"
	"path/filepath"
	"strings"
	"sync"
	"time"
)

// SolveResult is the answer of the solver portfolio for one query.
type SolveResult struct {
	Status string // unsat | sat | unknown | timeout | error
	Solver string
	Secs   float64
	Output string
	Tried  []string
}

type solverSpec struct {
	name string
	argv func(file string, secs int) []string
}

var solvers = []solverSpec{
	{"z3-5.1.0", func(f string, s int) []string { return []string{"z3-new", fmt.Sprintf("-T:%d", s), f} }},
	{"cvc5-1.0", func(f string, s int) []string {
		return []string{"cvc5", fmt.Sprintf("--tlimit=%d", s*1000), "--incremental", f}
	}},
	{"z3-4.8.12", func(f string, s int) []string { return []string{"/usr/bin/z3", fmt.Sprintf("-T:%d", s), f} }},
}

func runSolver(ctx context.Context, sp solverSpec, file string, secs int) (string, string) {
	argv := sp.argv(file, secs)
	cctx, cancel := context.WithTimeout(ctx, time.Duration(secs+2)*time.Second)
	defer cancel()
	cmd := osexec.CommandContext(cctx, argv[0], argv[1:]...)
	var out bytes.Buffer
	cmd.Stdout = &out
	cmd.Stderr = &out
	cmd.Run()
	o := out.String()
	first := ""
	for _, ln := range strings.Split(o, "\n") {
		ln = strings.TrimSpace(ln)
		if ln == "" || strings.HasPrefix(ln, "WARNING") {
			continue
		}
		first = ln
		break
	}
	switch first {
	case "unsat", "sat", "unknown":
		return first, o
	case "timeout":
		return "timeout", o
	}
	if cctx.Err() != nil {
		return "timeout", o
	}
	if strings.Contains(o, "timeout") || strings.Contains(o, "interrupted") {
		return "timeout", o
	}
	return "error", o
}

// Solve races the solvers on a query file. all=true waits for every solver (thorough tier).
func Solve(file string, secs int, quickFirst bool) SolveResult {
	start := time.Now()
	res := SolveResult{Status: "unknown"}
	if quickFirst {
		st, out := runSolver(context.Background(), solvers[0], file, 3)
		res.Tried = append(res.Tried, solvers[0].name+":"+st)
		if st == "unsat" || st == "sat" {
			return SolveResult{Status: st, Solver: solvers[0].name, Secs: time.Since(start).Seconds(), Output: out, Tried: res.Tried}
		}
	}
	ctx, cancel := context.WithCancel(context.Background())
	defer cancel()
	type ans struct {
		sp      solverSpec
		st, out string
	}
	ch := make(chan ans, len(solvers))
	for _, sp := range solvers {
		go func(sp solverSpec) {
			st, out := runSolver(ctx, sp, file, secs)
			ch <- ans{sp, st, out}
		}(sp)
	}
	var last ans
	for range solvers {
		a := <-ch
		res.Tried = append(res.Tried, a.sp.name+":"+a.st)
		if a.st == "unsat" || a.st == "sat" {
			cancel()
			return SolveResult{Status: a.st, Solver: a.sp.name, Secs: time.Since(start).Seconds(), Output: a.out, Tried: res.Tried}
		}
		if last.st == "" || a.st == "unknown" || (a.st == "timeout" && last.st == "error") {
			last = a
		}
	}
	res.Status = last.st
	res.Solver = "portfolio"
	res.Output = last.out
	res.Secs = time.Since(start).Seconds()
	return res
}

// SolveAll runs every solver to completion and reports each answer (stability check).
func SolveAll(file string, secs int) map[string]string {
	out := map[string]string{}
	var mu sync.Mutex
	var wg sync.WaitGroup
	for _, sp := range solvers {
		wg.Add(1)
		go func(sp solverSpec) {
			defer wg.Done()
			st, _ := runSolver(context.Background(), sp, file, secs)
			mu.Lock()
			out[sp.name] = st
			mu.Unlock()
		}(sp)
	}
	wg.Wait()
	return out
}

// GetValues asks z3 for the values of terms in a satisfiable query.
func GetValues(dir, name, query string, terms []string, secs int) (map[string]string, string) {
	q := strings.Replace(query, "(get-model)\n", "", 1)
	var b strings.Builder
	b.WriteString(q)
	for _, t := range terms {
		b.WriteString("(get-value (" + t + "))\n")
	}
	file := filepath.Join(dir, name+".values.smt2")
	os.WriteFile(file, []byte(b.String()), 0o644)
	for _, sp := range []solverSpec{solvers[0], solvers[2], solvers[1]} {
		st, out := runSolver(context.Background(), sp, file, secs)
		if st != "sat" {
			continue
		}
		vals := map[string]string{}
		lines := strings.Split(out, "\n")
		k := 0
		// each get-value prints ((term value)) possibly over several lines: join and split by balanced parens
		joined := strings.Join(lines[1:], " ")
		for _, grp := range topLevelGroups(joined) {
			if k >= len(terms) {
				break
			}
			inner := strings.TrimSpace(grp)
			inner = strings.TrimPrefix(inner, "((")
			inner = strings.TrimSuffix(inner, "))")
			// value = what follows the term text
			t := terms[k]
			if idx := strings.Index(inner, t); idx >= 0 {
				vals[t] = strings.TrimSpace(inner[idx+len(t):])
			} else {
				parts := topLevelGroups(inner)
				if len(parts) > 0 {
					vals[t] = parts[len(parts)-1]
				}
			}
			k++
		}
		return vals, out
	}
	return nil, ""
}

func topLevelGroups(s string) []string {
	var out []string
	depth, start := 0, -1
	for i := 0; i < len(s); i++ {
		switch s[i] {
		case '(':
			if depth == 0 {
				start = i
			}
			depth++
		case ')':
			depth--
			if depth == 0 && start >= 0 {
				out = append(out, s[start:i+1])
				start = -1
			}
		}
	}
	return out
}
