#!/bin/bash
# run every claimed check (quick tier) and print one summary line each
cd /verif
for p in $(python3 -c "import json;print(' '.join(c['property_id'] for c in json.load(open('MANIFEST.json'))['checks']))") "$@"; do
  ./bin/govc check $p --tier quick --no-evidence 2>&1 | grep "^VIOLATION\|^$p:" | cut -c1-260
done
