#!/bin/bash
# Run every claimed check (quick tier) exactly as MANIFEST.json registers it, rewriting evidence/,
# print one summary line each, then validate the evidence records. Run before every commit:
# evidence written by a run on a modified /repo (e.g. while trying a seeded change) must never
# be committed — validate_evidence.py fails on such a record.
cd /verif
export VERIF_SEED=${VERIF_SEED:-1} VERIF_TIER=quick
if [ -n "$(git -C /repo status --porcelain)" ]; then echo "runall: /repo has uncommitted changes — evidence would not describe the committed tree"; exit 2; fi
rc=0
for p in $(python3 -c "import json;print(' '.join(c['property_id'] for c in json.load(open('MANIFEST.json'))['checks']))") "$@"; do
  rm -f evidence/$p.json
  ./bin/govc check $p --tier quick > /tmp/runall-$p.log 2>&1 || rc=1
  grep "^VIOLATION\|^KNOWN-FINDING\|^$p:" /tmp/runall-$p.log | cut -c1-260
done
python3-vt tools/validate_evidence.py || rc=1
exit $rc
