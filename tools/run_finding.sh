#!/bin/bash
# run_finding.sh <findings/file_test.go.txt>: runs a known-finding replay test against /repo without
# writing into it (go test -overlay). The first line of the file names the package directory.
set -u
f=$(readlink -f "$1")
dir=$(head -1 "$f" | sed 's/^\/\/ *package directory: *//; s/[ (].*//; s/\/$//')
name=$(grep -o "func Test[A-Za-z0-9_]*" "$f" | head -1 | sed 's/func //')
export GOFLAGS=-mod=mod GOPROXY=off GOSUMDB=off GOTOOLCHAIN=local
tmp=$(mktemp -d)
cp "$f" $tmp/zz_finding_test.go
echo "{\"Replace\":{\"/repo/$dir/zz_finding_test.go\":\"$tmp/zz_finding_test.go\"}}" > $tmp/ov.json
( cd /repo && go test -overlay $tmp/ov.json -vet=off -count=1 -timeout 120s -run "^$name\$" ./$dir/ ) 2>&1 | tail -15
rc=${PIPESTATUS[0]}
rm -rf $tmp
