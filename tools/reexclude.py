#!/usr/bin/env python3
"""reexclude.py <Cxx> <verbose thorough log>: shrink the excluded list of a property.
An excluded obligation is dropped from excluded.json (= claimed from now on) when it discharged in the log AND
every other obligation of the same change pair (function#…closureX/closureY) discharged too — an obligation
proved under A-OWN relies on the field obligation of the same pair. Never adds entries."""
import json,re,sys
prop,log=sys.argv[1],sys.argv[2]
ex=json.load(open('/verif/excluded.json'))
st={}
for l in open(log):
    m=re.match(r'\s+(\S+)\s+(\S+)?\s+([\d.]+)s\s+(\S+)\s+\(([^)]*)\)\s*(\S*)',l)
    if m: st[m.group(4)]=m.group(1)
def pair(n):
    m=re.match(r'(.*#.*?closure\d+/closure\d+)',n)
    return m.group(1) if m else n
bad=set()
for n,s in st.items():
    if s not in ('discharged','cover-ok'): bad.add(pair(n))
keep=[];drop=[]
for e in ex[prop]:
    n=e['obligation']
    if st.get(n)=='discharged' and pair(n) not in bad: drop.append(n)
    else: keep.append(e)
newfail=[n for n,s in st.items() if s in('refuted','undecided') and n not in {e['obligation'] for e in ex[prop]}]
print(prop,'excluded',len(ex[prop]),'->',len(keep),'dropped',len(drop),'NEW FAILING (not excluded):',newfail)
for n in drop: print('  claim',n)
if '--write' in sys.argv:
    ex[prop]=keep
    json.dump(ex,open('/verif/excluded.json','w'),indent=1)
