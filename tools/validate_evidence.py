#!/usr/bin/env python3
"""Validate every evidence/<id>.json named in MANIFEST.json: schema-valid, level matches the
claim, and (proof level) discharged == obligations, violations == 0. Run before committing
evidence; exits 1 on the first stale or inconsistent record."""
import json, sys, os
try:
    import jsonschema
except ImportError:
    jsonschema = None
root = os.path.dirname(os.path.dirname(os.path.abspath(__file__)))
schema = json.load(open('/root/.vp/EVIDENCE.schema.json')) if os.path.exists('/root/.vp/EVIDENCE.schema.json') else None
m = json.load(open(os.path.join(root, 'MANIFEST.json')))
bad = 0
for c in m['checks']:
    p = c['property_id']
    f = os.path.join(root, c['evidence_file'])
    try:
        e = json.load(open(f))
    except Exception as x:
        print(p, 'MISSING/UNREADABLE', x); bad += 1; continue
    errs = []
    if schema is not None and jsonschema is not None:
        errs += [v.message[:200] for v in jsonschema.Draft202012Validator(schema).iter_errors(e)]
    cov = e.get('coverage', {})
    if e.get('property_id') != p: errs.append('property_id mismatch')
    if e.get('level') != c['level_claimed']['category']: errs.append('level != claimed category')
    if e.get('level') == 'proof' and cov.get('obligations') != cov.get('discharged'):
        errs.append('discharged (%s) != obligations (%s)' % (cov.get('discharged'), cov.get('obligations')))
    if e.get('violations', 0) != 0: errs.append('violations=%s' % e.get('violations'))
    per = cov.get('per_obligation') or []
    ndis = sum(1 for o in per if o.get('status') == 'discharged')
    if ndis != cov.get('discharged'): errs.append('per_obligation discharged (%d) != discharged' % ndis)
    print(p, e.get('tier'), 'seed', e.get('seed'), 'obl', cov.get('obligations'), 'dis', cov.get('discharged'),
          'listed-discharged', ndis, 'OK' if not errs else 'BAD: ' + '; '.join(errs))
    bad += bool(errs)
sys.exit(1 if bad else 0)
