#!/bin/bash
# recheck_fixes.sh: every `fixed` entry of known-findings.json is a must-fail case — with the fix commit reverted
# (in a scratch worktree of /repo HEAD) the property's quick check has to report a violation again.
# Prints one line per fix; "NOT-GUARDED" marks fixes whose obligation govc cannot decide (found by reading, kept in
# excluded.json) — they are guarded by their replay test only.
set -u
export GOFLAGS=-mod=mod GOPROXY=off GOSUMDB=off GOTOOLCHAIN=local
cd /verif
python3 - <<'PY' > /tmp/fixes.list
import json
k=json.load(open('/verif/known-findings.json'))
seen=set()
for f in k['findings']:
    if f.get('status')=='fixed' and f['commit'] not in seen:
        seen.add(f['commit']); print(f['property'],f['commit'])
PY
while read prop commit; do
  [ -n "${1:-}" ] && [ "$1" != "$commit" ] && continue
  WT=/tmp/wt/fix-$commit; rm -rf $WT; git -C /repo worktree prune
  git -C /repo worktree add -q --detach $WT HEAD || { echo "$prop $commit worktree-failed"; continue; }
  if ! (cd $WT && git diff $commit $commit~1 -- . ':!*zz_verif_contracts.go' | git apply 2>/dev/null); then
    echo "$prop $commit revert-does-not-apply (later changes touch the same lines)"; git -C /repo worktree remove --force $WT; continue
  fi
  out=$(VERIF_REPO=$WT ./bin/govc check $prop --tier quick --no-evidence 2>&1)
  if echo "$out" | grep -q "^VIOLATION"; then
    echo "$prop $commit reverted -> VIOLATION $(echo "$out" | grep '^VIOLATION' | sed 's/.*obligation=//' | head -1 | cut -c1-150)"
  else
    echo "$prop $commit reverted -> NOT-GUARDED (no obligation fails)"
  fi
  git -C /repo worktree remove --force $WT
done < /tmp/fixes.list
