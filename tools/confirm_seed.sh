#!/bin/bash
# confirm_seed.sh <id>  (e.g. C21-a): confirms a seeded change in a scratch worktree of /repo's HEAD:
#  with the patch: builds, demo FAILS; without: demo PASSES. Then runs the property's quick check
#  against /repo with the patch applied (and reverts). Writes seeded/<id>/meta.json.
set -u
id=$1
prop=${id%%-*}
S=/verif/seeded/$id
export GOFLAGS=-mod=mod GOPROXY=off GOSUMDB=off GOTOOLCHAIN=local
WT=/tmp/wt/confirm-$id
rm -rf $WT; git -C /repo worktree prune
git -C /repo worktree add -q --detach $WT HEAD || exit 2
dir=$(head -1 $S/zz_demo_test.go | sed 's/^\/\/ *package directory: *//; s/[ (].*//; s/\/$//')
applies=yes
( cd $WT && git apply $S/patch.diff ) || applies=no
build=skip; withp=skip; without=skip
if [ $applies = yes ]; then
  cp $S/zz_demo_test.go $WT/$dir/zz_demo_test.go
  ( cd $WT && go build ./... ) >/tmp/confirm-$id.build 2>&1 && build=ok || build=FAIL
  ( cd $WT && go test -vet=off -count=1 -timeout 600s -run "TestDemo$prop" ./$dir/ ) >/tmp/confirm-$id.with 2>&1 && withp=PASS || withp=FAIL
  ( cd $WT && git apply -R $S/patch.diff )
  ( cd $WT && go test -vet=off -count=1 -timeout 600s -run "TestDemo$prop" ./$dir/ ) >/tmp/confirm-$id.without 2>&1 && without=PASS || without=FAIL
fi
# our check against the change: run on the scratch worktree (VERIF_REPO), /repo itself is not touched
detected=unknown; viol=""
if [ $applies = yes ] && python3 - "$prop" <<'PY'
import json,sys
m=json.load(open('/verif/MANIFEST.json'))
sys.exit(0 if any(c['property_id']==sys.argv[1] for c in m['checks']) else 1)
PY
then
  ( cd $WT && git apply $S/patch.diff && rm -f $dir/zz_demo_test.go )
  out=$(cd /verif && VERIF_REPO=$WT ./bin/govc check $prop --tier quick --no-evidence 2>&1)
  if echo "$out" | grep -q "^VIOLATION"; then detected=yes; viol=$(echo "$out" | grep "^VIOLATION" | sed 's/.*obligation=//' | head -5 | tr '\n' ';'); else detected=no; fi
else
  detected=property-not-claimed
fi
git -C /repo worktree remove --force $WT
python3 - "$id" "$prop" "$dir" "$applies" "$build" "$withp" "$without" "$detected" "$viol" <<'PY'
import json,sys,subprocess
id,prop,d,applies,build,withp,without,detected,viol=sys.argv[1:10]
head=subprocess.check_output(['git','-C','/repo','log','--format=%h','-1'],text=True).strip()
notes=open(f'/verif/seeded/{id}/notes.md').read()
meta={"id":id,"breaks_property":prop,"package_dir":d,"confirmed_at_repo_commit":head,
 "patch_applies":applies=="yes","build_with_patch":build,"demo_with_patch":withp,"demo_without_patch":without,
 "confirmed": applies=="yes" and build=="ok" and withp=="FAIL" and without=="PASS",
 "needs_to_manifest": next((l.strip() for l in notes.splitlines() if 'ondition' in l or 'manifest' in l.lower()), ""),
 "ran":["git apply patch.diff in a scratch worktree of /repo HEAD","go build ./...",f"go test -run TestDemo{prop} ./{d}/ (with and without the patch)",f"bin/govc check {prop} --tier quick on /repo with the patch applied, then git checkout"],
 "detected_by_check":detected,"violated_obligations":viol}
json.dump(meta,open(f'/verif/seeded/{id}/meta.json','w'),indent=1)
print(id, "applies",applies,"build",build,"with",withp,"without",without,"detected",detected,viol[:150])
PY
