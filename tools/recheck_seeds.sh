#!/bin/bash
# recheck_seeds.sh [ids...]: the must-fail corpus, light version — for every seeded change (default: all), apply
# the patch in a scratch worktree of /repo HEAD, run the property's quick check against it (VERIF_REPO), and
# compare with the detection recorded in meta.json. Does not rebuild or rerun the demos (confirm_seed.sh does).
set -u
export GOFLAGS=-mod=mod GOPROXY=off GOSUMDB=off GOTOOLCHAIN=local
cd /verif
ids="$@"; [ -z "$ids" ] && ids=$(ls seeded | grep '^C')
for id in $ids; do
  prop=${id%%-*}; S=/verif/seeded/$id; WT=/tmp/wt/re-$id
  rm -rf $WT; git -C /repo worktree prune
  git -C /repo worktree add -q --detach $WT HEAD || { echo "$id worktree-failed"; continue; }
  if ! (cd $WT && git apply $S/patch.diff 2>/dev/null); then echo "$id patch-does-not-apply-anymore"; git -C /repo worktree remove --force $WT; continue; fi
  out=$(VERIF_REPO=$WT ./bin/govc check $prop --tier quick --no-evidence 2>&1)
  if echo "$out" | grep -q "^VIOLATION"; then now=yes; else now=no; fi
  was=$(python3 -c "import json;print(json.load(open('$S/meta.json')).get('detected_by_check','?'))")
  flag=""; [ "$was" = yes ] && [ "$now" = no ] && flag=" REGRESSION"
  echo "$id was=$was now=$now$flag $(echo "$out" | grep '^VIOLATION' | sed 's/.*obligation=//' | head -2 | tr '\n' ';' | cut -c1-160)"
  git -C /repo worktree remove --force $WT
done
