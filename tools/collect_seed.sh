#!/bin/bash
# collect_seed.sh <id> : copies a sub-agent's deliverables from /tmp/wt/<id>/_out into seeded/<id>/,
# normalises the demo header to "// package directory: <dir>", removes the scratch worktree.
set -u
id=$1
W=/tmp/wt/$id
S=/verif/seeded/$id
mkdir -p $S
cp $W/_out/patch.diff $W/_out/notes.md $S/ || exit 2
# find where the agent put the demo test
dir=$(cd $W && git status --porcelain | grep "zz_demo_test.go" | grep -v "_out/" | awk '{print $2}' | head -1 | xargs dirname 2>/dev/null)
if [ -z "$dir" ]; then dir=$(cd $W && find . -name zz_demo_test.go -not -path "./_out/*" | head -1 | xargs dirname | sed 's|^\./||'); fi
( echo "// package directory: $dir"; grep -v "^// package directory:" $W/$dir/zz_demo_test.go ) > $S/zz_demo_test.go
echo "collected $id (demo in $dir)"
git -C /repo worktree remove --force $W
