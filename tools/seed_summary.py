#!/usr/bin/env python3
"""Writes seeded/SUMMARY.md from the meta.json files (which tools/confirm_seed.sh writes):
the must-fail corpus — independent, confirmed property-breaking changes — and which obligation reports each."""
import json, glob, os
rows=[]
for f in sorted(glob.glob('/verif/seeded/*/meta.json')):
    m=json.load(open(f))
    patch=open(os.path.dirname(f)+'/patch.diff').read()
    files=sorted({l.split(' b/')[-1].strip() for l in patch.splitlines() if l.startswith('diff --git')})
    rows.append((m['id'], m['breaks_property'], ', '.join(files), 'yes' if m.get('confirmed') else 'NO', m.get('detected_by_check','?'), (m.get('violated_obligations') or '').split(';')[0].replace(' no-failing-input-found','')))
out=['# Seeded changes (must-fail corpus)','',
 'Each change was written by a sub-agent that saw only the property text and a scratch worktree; `confirmed` = applies, builds, its demonstration fails with the change and passes without it (tools/confirm_seed.sh). `detected` = the property\'s quick check reports a VIOLATION on a scratch worktree carrying the change.','',
 '| id | property | files | confirmed | detected | first reported obligation |','|---|---|---|---|---|---|']
for r in rows:
    out.append('| %s | %s | %s | %s | %s | %s |' % r)
det=sum(1 for r in rows if r[4]=='yes'); 
out+=['',f'{len(rows)} changes, {det} detected, {sum(1 for r in rows if r[4]=="no")} missed, {sum(1 for r in rows if r[4] not in ("yes","no"))} other.']
open('/verif/seeded/SUMMARY.md','w').write('\n'.join(out)+'\n')
print(out[-1])
