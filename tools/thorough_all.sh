#!/bin/bash
# Builds govc in the current checkout of /verif and runs every claimed check in the thorough tier
# (no evidence written). Meant for `vp run -- tools/thorough_all.sh`.
export GOFLAGS=-mod=mod GOPROXY=off GOSUMDB=off GOTOOLCHAIN=local
here=$(pwd)
(cd govc && go build -o $here/bin/govc ./cmd/govc) || exit 2
for p in $(python3 -c "import json;print(' '.join(c['property_id'] for c in json.load(open('MANIFEST.json'))['checks']))"); do
  start=$(date +%s)
  VERIF_ROOT=$here ./bin/govc check $p --tier thorough --no-evidence -v > /tmp/thorough-$p.log 2>&1
  rc=$?
  echo "$p rc=$rc $(( $(date +%s) - start ))s $(grep "^$p:" /tmp/thorough-$p.log | cut -c1-200)"
  grep "^VIOLATION" /tmp/thorough-$p.log | cut -c1-220
  grep -c "undecided" /tmp/thorough-$p.log | sed "s/^/   undecided lines: /"
done
