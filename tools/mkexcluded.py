#!/usr/bin/env python3
"""Regenerate the excluded (undecided, not claimed) list of one property from a verbose thorough log."""
import re,json,sys
prop,log=sys.argv[1],sys.argv[2]
d=json.load(open('/verif/excluded.json'))
ex=[]
for l in open(log):
    m=re.match(r'\s+(refuted|undecided)\s+\S+\s+[\d.]+s\s+(\S+)\s+\((\S*)\)',l)
    if m:
        st,name,pos=m.groups()
        if 'unknown-call' in name: reason='the pair calls a function without contract (heap havocked): not decided, not claimed'
        elif ':Md.' in name: reason='map restored only under a precondition not derivable here (key present with this value / cloned members); not claimed'
        else: reason='not an exact inverse for every symbolic state ('+st+'): holds only under a transaction-validation precondition or a state invariant that is not under contract yet; not claimed'
        ex.append({'obligation':name,'reason':reason,'source':pos})
d[prop]=ex
json.dump(d,open('/verif/excluded.json','w'),indent=1)
print(prop,len(ex),'excluded')
