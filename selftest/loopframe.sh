#!/bin/bash
# Must-fail / must-hold selftest of the inferred loop frame (vc/loopframe.go) on three synthetic functions added to
# a scratch worktree of /repo: a loop that writes a different object per iteration, a loop that writes one fixed
# object, a loop whose written object is chosen by a variable the loop changes. Expected: refuted, discharged, refuted.
set -u
export GOFLAGS=-mod=mod GOPROXY=off GOSUMDB=off GOTOOLCHAIN=local
WT=/tmp/wt/selftest-lf; rm -rf $WT; git -C /repo worktree prune; git -C /repo worktree add -q --detach $WT HEAD || exit 2
cat > $WT/utils/zz_lf.go <<'E'
package utils

type lfT struct{ x int }

func lfEach(ps []*lfT) {
	for _, p := range ps {
		p.x = 1
	}
}

func lfOne(q *lfT, other *lfT, n int) {
	for i := 0; i < n; i++ {
		q.x = i
	}
}

func lfChase(a, b *lfT, n int) {
	cur := a
	for i := 0; i < n; i++ {
		cur.x = 7
		cur = b
	}
}
E
cat >> $WT/utils/zz_verif_contracts.go <<'E'

//@ func lfEach(ps)
//@   props C99
//@   requires forall i int :: 0 <= i && i < len(ps) ==> ps[i] != nil
//@   ensures [C99] mustFail: forall i int :: 0 <= i && i < len(ps) ==> ps[i].x == old(ps[i].x)
//@ func lfOne(q, other, n)
//@   props C99
//@   requires q != nil && other != nil && q != other
//@   ensures [C99] mustHold: other.x == old(other.x)
//@ func lfChase(a, b, n)
//@   props C99
//@   requires a != nil && b != nil && a != b
//@   ensures [C99] mustFail: b.x == old(b.x)
E
out=$(cd /verif && VERIF_REPO=$WT bin/govc check C99 --no-evidence -v 2>&1)
git -C /repo worktree remove --force $WT; rm -rf /verif/replays/C99
ok=1
echo "$out" | grep -q "refuted .*lfEach#post:mustFail" || { echo "FAIL: lfEach must be refuted"; ok=0; }
echo "$out" | grep -q "discharged .*lfOne#post:mustHold" || { echo "FAIL: lfOne must be discharged"; ok=0; }
echo "$out" | grep -q "refuted .*lfChase#post:mustFail" || { echo "FAIL: lfChase must be refuted"; ok=0; }
[ $ok = 1 ] && echo "loopframe selftest: ok (refuted, discharged, refuted)" || { echo "$out" | tail -12; exit 1; }
